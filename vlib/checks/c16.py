"""C16 - text coding helpers round-trip, keep their type contract, are idempotent.

Engine C: texts x encodings (in several letter cases) x error policies for
safe_encode / safe_decode / to_utf8 against a reference written from the
statement (decode with the given encoding, fall back to UTF-8; bytes are
returned untouched when incoming and encoding agree ignoring case; transcoding
equals decode-then-encode), non-text argument types; to_slug over *every*
Unicode code point in three contexts plus a text alphabet: output alphabet and
idempotence.
"""
import re
import sys

from vlib.mc import enum as E

PROPERTY = 'C16'
LEVEL = 'model_checking'
ENGINE = 'C'
TECHNIQUE = ('stateless bounded model checking: complete enumeration of text x encoding x error-policy '
             'products against a reference; to_slug over every Unicode code '
             'point')
LEVEL_TEXT = ('The complete product of the text alphabet (ASCII, Latin-1, CJK, '
              'astral, combining, NUL, ligatures, invalid byte strings) x nine '
              'encoding spellings (as source and as target) x three error '
              'policies is evaluated for safe_decode / safe_encode / to_utf8 and '
              'compared with the reference, including object identity where '
              'the statement says "unchanged"/"untouched"; to_slug is run on '
              'every one of the 1 112 064 Unicode scalar values alone and '
              'inside two carriers, checking the output alphabet and '
              'idempotence.')
LEVEL_NOTE = ('Besides the nine spellings, every text codec the running Python ships is used '
              'as source and as target (with UTF-8 / Latin-1 on the other side), and payloads '
              'of 64 KiB / 128 KiB / 1 MiB +-1 ending in complete and incomplete multi-byte '
              'sequences are transcoded. '
              'Texts are the listed alphabet (plus all single code points for '
              'to_slug), not arbitrary strings. The locale-dependent default '
              'for `incoming` is driven through a stand-in sys.stdin with '
              'encoding ascii / utf-8 / None.')

TEXTS = ['', '\ufeffbom first', 'plain ascii', 'café üñî', '中文字', '\U0001f600 astral \U0001d400',
         'é combining', 'nul\x00inside', 'ﬁ ǅ İ ½', '  spaces\t\n  ',
         'a--b---c', '™℃№', 'ASCII ONLY 123 ~!@#']
RAW_BYTES = [b'', b'\xef\xbb\xbfabc', b'\xef\xbb\xbf', b'\xff\xfe\xfd', b'\x80abc', b'caf\xe9', b'\xc3\xa9', b'\xe4\xb8\xad', b'abc',
             b'\x00\xd8\x00\xdc', b'\xf0\x9f\x98\x80', b'\xc3']
ENCODINGS = ['utf-8', 'UTF-8', 'utf8', 'utf-16', 'utf-32', 'latin-1', 'ascii', 'cp1252',
             'shift_jis', 'Latin-1', 'ASCII']
ERRORS = ['strict', 'ignore', 'replace']
class BadRepr:
    """A half-initialised object: repr() and str() fail."""
    def __repr__(self):
        raise AttributeError('not initialised')

    __str__ = __repr__


class BadReprType(type):
    def __repr__(cls):
        raise ZeroDivisionError('metaclass repr')


class OddClass(metaclass=BadReprType):
    pass


NONTEXT = [None, 1, 1.5, [], object, ('a',), {'a': 1}, bytearray(b'abc'), memoryview(b'abc'), BadRepr(),
           OddClass]


def ref_decode(b, incoming, errors):
    try:
        return ('ret', b.decode(incoming, errors))
    except UnicodeDecodeError:
        try:
            return ('ret', b.decode('utf-8', errors))
        except UnicodeDecodeError:
            return ('UnicodeDecodeError',)
    except UnicodeEncodeError:
        return ('UnicodeEncodeError',)
    except TypeError:
        return ('TypeError',)
    except Exception as e:              # e.g. the plain UnicodeError of idna / punycode
        return ('raises', type(e).__name__)


def ref_encode(text, encoding, errors):
    try:
        return ('ret', text.encode(encoding, errors))
    except UnicodeEncodeError:
        return ('UnicodeEncodeError',)
    except UnicodeDecodeError:
        return ('UnicodeDecodeError',)
    except TypeError:
        return ('TypeError',)
    except Exception as e:
        return ('raises', type(e).__name__)


def all_text_codecs():
    """Every text codec this Python ships (bytes <-> str), by canonical name: the
    stateful 7-bit ones (iso2022_*, hz, utf_7), the EBCDIC pages, the BOM-writing
    ones, the escape codecs, idna, punycode ..."""
    import codecs
    import encodings.aliases
    names = set(encodings.aliases.aliases.values()) | {'utf_8_sig', 'idna', 'punycode',
                                                        'raw_unicode_escape', 'unicode_escape'}
    out = []
    for n in sorted(names):
        try:
            info = codecs.lookup(n)
            if not getattr(info, '_is_text_encoding', True):
                continue
            if not isinstance('a'.encode(n), bytes) or not isinstance(b'a'.decode(n), str):
                continue
        except Exception:
            continue
        if n in ('mbcs', 'oem'):
            continue
        out.append(n)
    return out


def call(fn, *a, **kw):
    try:
        return ('ret', fn(*a, **kw))
    except UnicodeDecodeError:
        return ('UnicodeDecodeError',)
    except UnicodeEncodeError:
        return ('UnicodeEncodeError',)
    except TypeError:
        return ('TypeError',)
    except Exception as e:
        return ('raises', type(e).__name__)


def same(a, b):
    return a == b and (a[0] != 'ret' or type(a[1]) is type(b[1]))


def _text_case(vals, acc):
    from oslo_utils import encodeutils
    text, enc, errors = vals
    acc.nontrivial(repr(vals))
    p = {'text': [repr(text), enc, errors]}
    # safe_decode(str) is the identity (same object), whatever the arguments
    r = call(encodeutils.safe_decode, text, enc, errors)
    if r[0] != 'ret' or r[1] is not text:
        acc.fail('safe_decode-str-not-unchanged', {'text': text, 'got': repr(r)}, p)
        return
    # safe_encode(str) == str.encode
    want = ref_encode(text, enc, errors)
    got = call(encodeutils.safe_encode, text, encoding=enc, errors=errors)
    got2 = call(encodeutils.safe_encode, text, 'ascii', enc, errors)      # incoming is irrelevant for str
    if not same(got, want) or not same(got2, want):
        acc.fail('safe_encode-str', {'text': text, 'encoding': enc, 'errors': errors,
                                     'got': repr(got), 'want': repr(want)}, p)
        return
    if want[0] == 'ret' and errors == 'strict' and ref_decode(want[1], enc, 'strict') == ('ret', text):
        back = call(encodeutils.safe_decode, want[1], enc)
        if back != ('ret', text):
            acc.fail('round-trip', {'text': text, 'encoding': enc, 'got': repr(back)}, p)
            return
    u = call(encodeutils.to_utf8, text)
    if u != ('ret', text.encode('utf-8')) and not (u == ('UnicodeEncodeError',)):
        acc.fail('to_utf8-str', {'text': text, 'got': repr(u)}, p)


def _bytes_case(vals, acc):
    from oslo_utils import encodeutils
    src, incoming, encoding, errors = vals
    kind, payload = src
    if kind == 'raw':
        b = payload
    elif kind == 'big':
        length, tail = payload
        b = b'a' * (length - len(tail)) + tail
    else:
        try:
            b = payload.encode(incoming if kind == 'enc-in' else 'utf-8')
        except Exception:
            return
    acc.nontrivial(repr((b if len(b) < 64 else src, incoming, encoding, errors)))
    p = {'bytes': [b.hex(), incoming, encoding, errors]} if len(b) < 4096 else \
        {'big': [list(src[1][:1]) + [src[1][1].hex()], incoming, encoding, errors]}
    # safe_decode(bytes)
    want_d = ref_decode(b, incoming, errors)
    got_d = call(encodeutils.safe_decode, b, incoming, errors)
    if not same(got_d, want_d):
        acc.fail('safe_decode-bytes', {'bytes': b.hex()[:200], 'length': len(b), 'incoming': incoming,
                                       'errors': errors,
                                       'got': repr(got_d)[:200], 'want': repr(want_d)[:200]}, p)
        return
    # safe_encode(bytes)
    got = call(encodeutils.safe_encode, b, incoming, encoding, errors)
    if not b or incoming.lower() == encoding.lower():
        if got[0] != 'ret' or got[1] is not b:
            acc.fail('safe_encode-bytes-not-untouched',
                     {'bytes': b.hex()[:200], 'length': len(b), 'incoming': incoming,
                      'encoding': encoding, 'errors': errors, 'got': repr(got)[:200]}, p)
        return
    if want_d[0] != 'ret':
        want = want_d
    else:
        want = ref_encode(want_d[1], encoding, errors)
    if not same(got, want):
        d = 0
        if got[0] == 'ret' and want[0] == 'ret':
            while d < min(len(got[1]), len(want[1])) and got[1][d] == want[1][d]:
                d += 1
        acc.fail('safe_encode-transcode', {'bytes': b.hex()[:200], 'length': len(b), 'incoming': incoming,
                                           'encoding': encoding, 'errors': errors,
                                           'first_difference_at': d,
                                           'got': repr(got[1][max(d - 8, 0):d + 24] if got[0] == 'ret' else got),
                                           'want': repr(want[1][max(d - 8, 0):d + 24] if want[0] == 'ret' else want)},
                 p)
        return
    t = call(encodeutils.to_utf8, b)
    if t[0] != 'ret' or t[1] is not b:
        acc.fail('to_utf8-bytes', {'bytes': b.hex(), 'got': repr(t)}, p)


SLUG_RE = re.compile(r'^-?[a-z0-9_]+(-[a-z0-9_]+)*-?$|^-?$')


def slug_problem(strutils, text):
    try:
        s = strutils.to_slug(text)
    except Exception as e:
        return 'raises %s' % type(e).__name__
    if not isinstance(s, str) or not SLUG_RE.match(s) or '--' in s:
        return 'alphabet: %r' % (s,)
    try:
        s2 = strutils.to_slug(s)
    except Exception as e:
        return 'second pass raises %s' % type(e).__name__
    if s2 != s:
        return 'not idempotent: %r -> %r' % (s, s2)
    return None


def _slug_range(vals, acc):
    from oslo_utils import strutils
    lo, hi = vals[0]
    for cp in range(lo, hi):
        if 0xD800 <= cp <= 0xDFFF:
            continue
        ch = chr(cp)
        for text in (ch, 'Ab ' + ch + ' cD', ch + ch + '-' + ch, 'a' + ch + 'b'):
            acc.counters['slug_inputs'] += 1
            pr = slug_problem(strutils, text)
            if pr:
                acc.fail('to_slug:' + pr.split(':')[0], {'text': text, 'codepoint': hex(cp),
                                                         'problem': pr}, {'slug': text})
                break
    acc.nontrivial('range%d' % lo)


def _slug_text(vals, acc):
    from oslo_utils import strutils
    text, form = vals
    acc.nontrivial(repr(vals))
    arg = text if form == 'str' else text.encode('utf-8')
    try:
        s = strutils.to_slug(arg, 'utf-8') if form != 'str' else strutils.to_slug(arg)
    except Exception as e:
        acc.fail('to_slug:raises', {'text': repr(arg), 'exception': type(e).__name__}, {'slug': text})
        return
    pr = slug_problem(strutils, text)
    if pr or s != strutils.to_slug(text):
        acc.fail('to_slug:text', {'text': repr(arg), 'problem': pr, 'got': s}, {'slug': text})


class FakeStdin:
    def __init__(self, enc):
        self.encoding = enc


def check_default_incoming(rep):
    """`incoming` left out: the locale-dependent default is decided by the
    harness through a stand-in sys.stdin."""
    from oslo_utils import encodeutils
    old = sys.stdin
    try:
        for enc in ('ascii', 'utf-8', None, 'latin-1'):
            sys.stdin = FakeStdin(enc)
            eff = enc or sys.getdefaultencoding()
            for b in RAW_BYTES + ['café'.encode('utf-8'), 'café'.encode('latin-1')]:
                rep.count('evaluations')
                rep.nontrivial('default/%s/%s' % (enc, b.hex()))
                want = ref_decode(b, eff, 'strict')
                got = call(encodeutils.safe_decode, b)
                if not same(got, want):
                    rep.fail('safe_decode-default-incoming',
                             {'stdin_encoding': enc, 'bytes': b.hex(), 'got': repr(got),
                              'want': repr(want)}, {'default': [enc, b.hex()]})
                t8 = call(encodeutils.to_utf8, b)
                if t8[0] != 'ret' or t8[1] is not b:
                    rep.fail('to_utf8-bytes-depends-on-stdin-encoding',
                             {'stdin_encoding': enc, 'bytes': b.hex(), 'got': repr(t8)},
                             {'default': [enc, b.hex()]})
                got = call(encodeutils.safe_encode, b)
                if b and eff.lower() != 'utf-8':
                    w = want if want[0] != 'ret' else ('ret', want[1].encode('utf-8'))
                    ok = same(got, w)
                else:
                    ok = got[0] == 'ret' and got[1] is b
                if not ok:
                    rep.fail('safe_encode-default-incoming',
                             {'stdin_encoding': enc, 'bytes': b.hex(), 'got': repr(got)},
                             {'default': [enc, b.hex()]})
    finally:
        sys.stdin = old


def _safe_repr(v):
    """repr() for reports: some NONTEXT objects refuse to be printed, and a broken helper may
    hand one of them back."""
    try:
        return repr(v)
    except Exception as e:
        return '<%s whose repr raises %s>' % (type(v).__name__ if not isinstance(v, tuple)
                                              else 'tuple holding an object', type(e).__name__)


def run(ctx):
    rep = ctx.new_report()
    from vlib.ref import noise as _noise
    E.set_noise(_noise.encode_noise() + _noise.strutils_noise())
    E.run(rep, 'text', [TEXTS, ENCODINGS, ERRORS], _text_case)
    srcs = [('raw', b) for b in RAW_BYTES] + [('enc-in', t) for t in TEXTS] + \
        [('enc-utf8', t) for t in TEXTS[2:6]]
    E.run(rep, 'bytes', [srcs, ENCODINGS, ENCODINGS, ERRORS], _bytes_case)
    # every text codec of this Python, as source and as target of a transcoding with UTF-8
    codecs_all = all_text_codecs()
    E.run(rep, 'text-all-codecs', [TEXTS[2:9], codecs_all, ERRORS], _text_case)
    srcs2 = [('raw', b) for b in RAW_BYTES[3:8]] + [('enc-in', t) for t in TEXTS[2:8]]
    E.run(rep, 'bytes-all-codecs-in', [srcs2, codecs_all, ['utf-8', 'latin-1'], ERRORS], _bytes_case)
    E.run(rep, 'bytes-all-codecs-out', [[('enc-utf8', t) for t in TEXTS[2:8]], ['utf-8'], codecs_all,
                                        ERRORS], _bytes_case)
    # payloads that exactly fill / just miss a power-of-two buffer, ending in a complete or
    # an incomplete multi-byte sequence (plus whatever new size constants the code has)
    from vlib import lits
    sizes = {65535, 65536, 65537, 131071, 131072, 131073, 1048576}
    for v in lits.new('oslo_utils/encodeutils.py')['ints']:
        if 2 <= v <= 1 << 22:
            sizes |= {v - 1, v, v + 1, 2 * v - 1, 2 * v, 2 * v + 1, 3 * v}
    tails = [b'', 'é'.encode('utf-8'), '€'.encode('utf-8')[:2], b'\xc3', '😀'.encode('utf-8')[:3],
             b'\xd8\x3d', b'\x82', b'\x1b$B']
    big = [('big', (n, t)) for n in sorted(sizes) for t in tails]
    pairs = [('utf-8', 'latin-1'), ('utf-8', 'utf-16'), ('utf-16-le', 'utf-8'), ('shift_jis', 'utf-8'),
             ('utf-8', 'iso2022_jp'), ('latin-1', 'utf-8'), ('utf-8', 'utf-8')]
    E.run(rep, 'bytes-big', [big, pairs, ERRORS],
          lambda vals, acc: _bytes_case((vals[0], vals[1][0], vals[1][1], vals[2]), acc))
    rep.notes['all_codecs'] = codecs_all
    rep.notes['big_sizes'] = sorted(sizes)
    # type contract
    from oslo_utils import encodeutils, strutils
    for fn in (encodeutils.safe_decode, encodeutils.safe_encode, encodeutils.to_utf8,
               strutils.to_slug):
        for bad in NONTEXT:
            rep.count('evaluations')
            rep.nontrivial('type/%s/%d' % (fn.__name__, NONTEXT.index(bad)))
            got = call(fn, bad)
            if got != ('TypeError',):
                rep.fail('type-contract:%s' % fn.__name__, {'argument': 'NONTEXT[%d] (%s)' % (
                    NONTEXT.index(bad), type(bad).__name__), 'got': _safe_repr(got)},
                         {'nontext': [fn.__name__, NONTEXT.index(bad)]})
    check_default_incoming(rep)
    # to_slug over every Unicode scalar value
    step = 0x800
    E.run(rep, 'slug-codepoints', [[(lo, min(lo + step, 0x110000)) for lo in range(0, 0x110000, step)]],
          _slug_range, nparts=64)
    E.run(rep, 'slug-texts', [TEXTS + ['Acme™ Corp', ' - a - ', '--', 'KÅ ㏑', 'x' * 300,
                                       'Hello, World!', 'ÄÖÜ-ß', '__init__', 'a b c'],
                              ['str', 'bytes']], _slug_text)
    rep.count('evaluations', rep.counters.get('slug_inputs', 0))
    rep.sample({'safe_encode': [repr(b'\xff\xfe\xfd'), {'incoming': 'UTF-8', 'encoding': 'utf-8',
                                                         'errors': 'replace'}],
                'want': 'the same bytes object'})
    rep.sample({'safe_decode': [repr('café'.encode('utf-8')), 'ascii'], 'want': 'café (UTF-8 fallback)'})
    rep.sample({'to_slug': 'Acme™ Corp', 'want': 'acmetm-corp'})
    rep.notes['rule'] = ('complete products (texts x encodings x policies; byte sources x incoming x '
                         'encoding x policies); to_slug over all Unicode scalar values x 3 carriers '
                         '(counted in slug_inputs; distinct_nontrivial counts product cases and '
                         'code-point ranges, not single code points)')
    rep.notes['bounds'] = {'texts': len(TEXTS), 'raw_byte_strings': len(RAW_BYTES),
                           'encodings': ENCODINGS, 'errors': ERRORS,
                           'slug_code_points': '0x0..0x10FFFF minus surrogates'}
    return rep


def replay(payload):
    import ast
    from oslo_utils import strutils
    acc = _Acc()
    if 'text' in payload:
        t, enc, errors = payload['text']
        _text_case((ast.literal_eval(t), enc, errors), acc)
    elif 'bytes' in payload:
        h, i, e, errors = payload['bytes']
        _bytes_case((('raw', bytes.fromhex(h)), i, e, errors), acc)
    elif 'big' in payload:
        (n, t), i, e, errors = payload['big']
        _bytes_case((('big', (n, bytes.fromhex(t))), i, e, errors), acc)
    elif 'slug' in payload:
        pr = slug_problem(strutils, payload['slug'])
        return {'violates': bool(pr), 'problem': pr}
    else:
        from vlib.report import Report
        rep = Report('C16', {})
        check_default_incoming(rep)
        return {'violates': bool(rep.violations) or 'nontext' in payload}
    return {'violates': bool(acc.fails), 'problems': acc.fails}


class _Acc:
    def __init__(self):
        self.fails = []
        import collections
        self.counters = collections.Counter()

    def fail(self, cls, summary, payload, sigs=()):
        self.fails.append({'class': cls, 'summary': summary})

    def count(self, *a):
        pass

    def nontrivial(self, *a):
        pass
