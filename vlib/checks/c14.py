"""C14 - scalar parsers and validators classify every input exactly.

Engine C: complete products of word/int/length/uuid shape alphabets against
reference classifiers written from the statement: bool_from_string /
is_valid_boolstr / int_from_bool_as_string, is_int_like, validate_integer,
check_string_length, is_uuid_like and generate_uuid.
"""
import itertools
import re
import uuid

from vlib.mc import enum as E

PROPERTY = 'C14'
LEVEL = 'model_checking'
ENGINE = 'C'
TECHNIQUE = ('stateless bounded model checking: complete enumeration of input-shape products against '
             'reference classifiers')
LEVEL_TEXT = ('All documented boolean words in three letter cases and five '
              'paddings plus near misses and non-strings, crossed with strict x '
              'default; integers at -1/0/+1 around every bound as int and in '
              'eleven string spellings crossed with all (min, max) pairs; all '
              'string lengths around min/max; hex strings of length 30..34 in '
              'every decoration and case; 1000 generate_uuid draws in both '
              'forms: each compared with a reference classifier.')
LEVEL_NOTE = ('Shapes are the listed alphabets, not arbitrary text. The bool / integer / '
              'length products are run with oslo.i18n lazy translation off and on; names and '
              'values include printf- and format-style directives. '
              'check_string_length(max_length=0) ("no maximum") and uppercase '
              'URN:UUID: are left unclassified.')

TRUE_WORDS = ['1', 't', 'true', 'on', 'y', 'yes']
FALSE_WORDS = ['0', 'f', 'false', 'off', 'n', 'no']
PADS = [('', ''), (' ', ''), ('', ' '), ('\t', '\n'), ('  ', '  ')]
NEAR = ['tru', 'yess', '2', '', ' ', 'o n', 'nope', 'tr ue', '01', '-1', 'None', 'truefalse',
        'T R U E', 'o\ufb00', 'fal\u017fe', 'ye\u017f', '\uff11', '\uff54rue', 'ON\u0307', 'n\u00f2']
NONSTR = [True, False, 0, 1, 2, None, 1.0, 0.0, b'true', [], -1]


def set_lazy(flag):
    """oslo.i18n's process-wide switch (services enable it at start-up): with it the
    library's _() returns Message objects instead of str. What a validator answers or
    raises must not depend on it."""
    try:
        import oslo_i18n
        oslo_i18n.enable_lazy(bool(flag))
    except Exception:
        pass


def with_lazy(fn):
    def case(vals, acc):
        lazy = vals[-1]
        set_lazy(lazy)
        try:
            fn(vals[:-1], acc, lazy)
        finally:
            set_lazy(False)
    return case


def _bool_case(vals, acc, lazy=False):
    from oslo_utils import strutils
    subject, strict, default = vals
    acc.nontrivial(repr(vals))
    if isinstance(subject, bool):
        want = ('ret', subject)
    else:
        low = (subject if isinstance(subject, str) else str(subject)).strip().lower()
        if low in TRUE_WORDS:
            want = ('ret', True)
        elif low in FALSE_WORDS:
            want = ('ret', False)
        elif strict:
            want = ('ValueError',)
        else:
            want = ('ret', default)
    try:
        got = ('ret', strutils.bool_from_string(subject, strict=strict, default=default))
    except ValueError:
        got = ('ValueError',)
    except Exception as e:
        got = ('raises', type(e).__name__)
    if got != want or (got[0] == 'ret' and got[1] is not want[1]):
        acc.fail('bool_from_string', {'subject': repr(subject), 'strict': strict,
                                      'default': default, 'got': repr(got), 'want': repr(want)},
                 {'bool': [repr(subject), strict, default], 'lazy': lazy})
        return
    # is_valid_boolstr agrees on unpadded input
    if isinstance(subject, (str, bool)) and (not isinstance(subject, str) or subject == subject.strip()):
        try:
            strutils.bool_from_string(subject, strict=True)
            ok = True
        except ValueError:
            ok = False
        try:
            v = strutils.is_valid_boolstr(subject)
        except Exception as e:
            v = ('raises', type(e).__name__)
        if v is not ok and v != ok:
            acc.fail('is_valid_boolstr', {'subject': repr(subject), 'got': repr(v), 'want': ok},
                     {'bool': [repr(subject), strict, default]})
            return
    if not strict and default is False:
        try:
            i = strutils.int_from_bool_as_string(subject)
        except Exception as e:
            i = ('raises', type(e).__name__)
        if i != (1 if want[1] else 0) or isinstance(i, bool):
            acc.fail('int_from_bool_as_string', {'subject': repr(subject), 'got': repr(i)},
                     {'bool': [repr(subject), strict, default]})


FULLWIDTH = {'０': '0', '１': '1', '２': '2', '３': '3'}


def int_literal(text):
    """Reference: the value of `text` as a Python integer literal for int(),
    or None. Covers the spellings of the alphabet below."""
    t = text.strip()
    if not t:
        return None
    sign = 1
    if t[0] in '+-':
        sign = -1 if t[0] == '-' else 1
        t = t[1:]
    if not t:
        return None
    import unicodedata
    t = ''.join(str(unicodedata.decimal(c)) if (c.isdecimal() and not c.isascii()) else c
                for c in t)
    if not re.fullmatch(r'[0-9]+(_[0-9]+)*', t):
        return None
    return sign * int(t.replace('_', ''))


def int_spellings(n):
    s = str(n)
    return [n, s, ' ' + s, s + ' ', '+' + s if n >= 0 else s, s + '.0', s + 'e1', '0x' + s,
            s[:-1] + '_' + s[-1] if len(s) > 1 and s[-2].isdigit() else s + '_0',
            ''.join({v: k for k, v in FULLWIDTH.items()}.get(c, c) for c in s), '-0' if n == 0 else s,
            float(n)]


NAMES = ['x', 'x%dy', '%(min_value)s', '100%', '{0}']


def _int_case(vals, acc, lazy=False):
    from oslo_utils import strutils
    value, lo, hi = vals
    acc.nontrivial(repr(vals))
    # reference
    if isinstance(value, bool) or value is None or isinstance(value, float):
        lit = None
    elif isinstance(value, int):
        lit = value
    else:
        lit = int_literal(value)
    if lit is None or (lo is not None and lit < lo) or (hi is not None and lit > hi):
        want = ('ValueError',)
    else:
        want = ('ret', lit)
    for name in NAMES:           # the name only goes into the message
        try:
            r = strutils.validate_integer(value, name, lo, hi)
            got = ('ret', r)
        except ValueError:
            got = ('ValueError',)
        except Exception as e:
            got = ('raises', type(e).__name__)
        if got != want or (got[0] == 'ret' and type(got[1]) is not int):
            acc.fail('validate_integer', {'value': repr(value), 'name': name, 'min': lo, 'max': hi,
                                          'lazy_translation': lazy,
                                          'got': repr(got), 'want': repr(want)},
                     {'int': [repr(value), lo, hi], 'lazy': lazy})
            return
    # is_int_like: canonical base-10 rendering only
    if isinstance(value, bool) or value is None or isinstance(value, float):
        canon = False
    elif isinstance(value, int):
        canon = True
    else:
        canon = bool(re.fullmatch(r'-?(0|[1-9][0-9]*)', value)) and value != '-0'
    try:
        g = strutils.is_int_like(value)
    except Exception as e:
        g = ('raises', type(e).__name__)
    if g is not canon:
        acc.fail('is_int_like', {'value': repr(value), 'got': repr(g), 'want': canon},
                 {'int': [repr(value), lo, hi]})


def _len_case(vals, acc, lazy=False):
    from oslo_utils import strutils
    value, lo, hi = vals
    acc.nontrivial(repr((type(value).__name__, len(value) if hasattr(value, '__len__') else value, lo, hi)))
    if not isinstance(value, str):
        want = 'TypeError'
    elif len(value) < lo or (hi is not None and len(value) > hi):
        want = 'ValueError'
    else:
        want = 'ok'
    for name in (None, 'field', 'f%dg', '%(name)s'):
        try:
            r = strutils.check_string_length(value, name=name, min_length=lo, max_length=hi)
            got = 'ok' if r is None else 'returned %r' % (r,)
        except TypeError:
            got = 'TypeError'
        except ValueError:
            got = 'ValueError'
        except Exception as e:
            got = 'raises ' + type(e).__name__
        if got != want:
            acc.fail('check_string_length', {'value': repr(value)[:40], 'name': name, 'min': lo,
                                             'max': hi, 'lazy_translation': lazy,
                                             'got': got, 'want': want},
                     {'len': [repr(value), lo, hi], 'lazy': lazy})
            return
    # bounds left out are no bounds: min_length=0, max_length=None (the documented signature)
    left_out = []
    if lo == 0:
        left_out.append(({'max_length': hi}, 'min_length'))
    if hi is None:
        left_out.append(({'min_length': lo}, 'max_length'))
    if lo == 0 and hi is None:
        left_out.append(({}, 'both'))
    for kw, which in left_out:
        try:
            r = strutils.check_string_length(value, **kw)
            got = 'ok' if r is None else 'returned %r' % (r,)
        except TypeError:
            got = 'TypeError'
        except ValueError:
            got = 'ValueError'
        except Exception as e:
            got = 'raises ' + type(e).__name__
        if got != want:
            acc.fail('check_string_length:%s-left-out' % which,
                     {'value': repr(value)[:40], 'given': kw, 'lazy_translation': lazy,
                      'got': got, 'want': want},
                     {'len': [repr(value), lo, hi], 'lazy': lazy})
            return


HEX = '0123456789abcdef'


def hex_body(n, seed):
    return ''.join(HEX[(i * 7 + seed * 3 + (i * i) % 5) % 16] for i in range(n))


def decorate(body, deco):
    if deco == 'plain':
        return body
    if deco == 'hyphenated':
        parts = [body[0:8], body[8:12], body[12:16], body[16:20], body[20:]]
        return '-'.join(parts)
    if deco == 'braced':
        return '{' + decorate(body, 'hyphenated') + '}'
    if deco == 'urn':
        return 'urn:uuid:' + decorate(body, 'hyphenated')
    if deco == 'urn-plain':
        return 'urn:uuid:' + body
    if deco == 'braced-plain':
        return '{' + body + '}'
    # the decorations compose (uuid.UUID removes 'urn:' and 'uuid:' wherever they are,
    # then braces, then hyphens), in either nesting order
    if deco == 'braced-urn':
        return '{urn:uuid:' + decorate(body, 'hyphenated') + '}'
    if deco == 'urn-braced':
        return 'urn:uuid:{' + decorate(body, 'hyphenated') + '}'
    if deco == 'braced-uuid-plain':
        return '{uuid:' + body + '}'
    if deco == 'uuid-only':
        return 'uuid:' + decorate(body, 'hyphenated')
    if deco == 'urn-only':
        return 'urn:' + body
    raise ValueError(deco)


DECOS = ['plain', 'hyphenated', 'braced', 'urn', 'urn-plain', 'braced-plain',
         'braced-urn', 'urn-braced', 'braced-uuid-plain', 'uuid-only', 'urn-only']
DEFECTS = ['none', '0x-prefix', 'non-hex', 'underscore', 'leading-space', 'trailing-space',
           'plus', 'trailing-newline', 'inner-tab', 'hyphen-for-digit', 'hyphen-for-last-digit',
           'two-hyphens-for-digits']


def _uuid_case(vals, acc):
    from oslo_utils import uuidutils
    n, deco, defect, upper, seed = vals
    body = hex_body(n, seed)
    if defect == '0x-prefix':
        body = '0x' + body[2:]
    elif defect == 'non-hex':
        body = body[:5] + 'g' + body[6:]
    elif defect == 'underscore':
        body = body[:9] + '_' + body[10:]
    elif defect == 'leading-space':
        body = ' ' + body[1:]
    elif defect == 'trailing-space':
        body = body[:-1] + ' '
    elif defect == 'plus':
        body = '+' + body[1:]
    elif defect == 'trailing-newline':
        body = body[:-1] + '\n'
    elif defect == 'inner-tab':
        body = body[:16] + '\t' + body[17:]
    elif defect == 'hyphen-for-digit':
        body = body[:3] + '-' + body[4:]
    elif defect == 'hyphen-for-last-digit':
        body = body[:-1] + '-'
    elif defect == 'two-hyphens-for-digits':
        body = '-' + body[1:10] + '-' + body[11:]
    text = decorate(body.upper() if upper else body, deco)
    # hyphens are decoration: what counts is the number of hex digits left
    lost = {'hyphen-for-digit': 1, 'hyphen-for-last-digit': 1, 'two-hyphens-for-digits': 2}
    want = (defect == 'none' and n == 32) or (defect in lost and n - lost[defect] == 32)
    acc.nontrivial(text)
    try:
        got = uuidutils.is_uuid_like(text)
    except Exception as e:
        got = ('raises', type(e).__name__)
    if got is not want:
        acc.fail('is_uuid_like:%s' % ('accepts' if got is True else 'rejects' if got is False else 'raises'),
                 {'text': text, 'got': repr(got), 'want': want}, {'uuid': text, 'want': want})


def run(ctx):
    rep = ctx.new_report()
    from vlib.ref import noise as _noise
    E.set_noise(_noise.strutils_noise())
    subjects = []
    for w in TRUE_WORDS + FALSE_WORDS:
        for form in (w, w.upper(), w.title()):
            for a, b in PADS:
                subjects.append(a + form + b)
    subjects += NEAR + NONSTR + ['%d', '%(val)s', '100%', '{0}']
    # every documented word continued by one or several characters, or lacking its last one
    for w in TRUE_WORDS + FALSE_WORDS:
        subjects += [w + 'x', w + 'hood', w.upper() + 'S', w + '1', w[:-1] if len(w) > 1 else w + w]
    E.run(rep, 'bool', [subjects, [False, True], [True, False, None], [False, True]],
          with_lazy(_bool_case))
    bounds = [None, -1, 0, 10]
    pairs = [(a, b) for a in bounds for b in bounds if a is None or b is None or a <= b]
    values = []
    from vlib import lits
    extra_ints = [v for v in lits.new('oslo_utils/strutils.py')['ints'] if abs(v) < 1 << 70][:6]
    for b in [-1, 0, 10, 12345678901234567890] + extra_ints:
        for d in (-1, 0, 1):
            values += int_spellings(b + d)
    values += ['', ' ', 'abc', None, True, False, '1 0', '--1', '+-1', '１２', '1__0', '_1', '1_',
               '٣', '1,000', '0b1', '1L', b'1' if False else '1\x00',
               # one numeral written in two scripts
               '1\u0662', '-4\uff17', '\u0662' + '1', '1\u0967' + '0', '12\u0663' + '4567890123']
    uniq = []
    seen = set()
    for v in values:
        k = (type(v).__name__, repr(v))
        if k not in seen:
            seen.add(k)
            uniq.append(v)
    E.run(rep, 'integers', [[(v, a, b) for v in uniq for a, b in pairs], [False, True]],
          with_lazy(lambda vals, acc, lazy: _int_case(vals[0], acc, lazy)))
    lens = []
    for lo in (0, 1, 3):
        for hi in [None, 1, 3, 5] + [v for v in extra_ints if 5 < v <= 100000][:3]:
            for n in sorted({0, 1, max(lo - 1, 0), lo, (hi or 6), (hi or 6) + 1}):
                lens.append(('x' * n, lo, hi))
            for bad in (None, 5, b'abc', ['a'], 1.5):
                lens.append((bad, lo, hi))
            # text that is itself a format string: it only ever appears in a message
            for fmt in ('%d', 'x%dy', '%s', '%%', '100% done', '%(key)s', '%(name)s%(value)s', '{0}',
                        '{name}', '%', '%5.2f%c', '%r'):
                lens.append((fmt, lo, hi))
    E.run(rep, 'lengths', [lens, [False, True]],
          with_lazy(lambda vals, acc, lazy: _len_case(vals[0], acc, lazy)))
    E.run(rep, 'uuid-shapes', [[30, 31, 32, 33, 34], DECOS, DEFECTS, [False, True],
                               [ctx.seed, ctx.seed + 1, ctx.seed + 2]], _uuid_case)
    # non-strings are not UUID-like, and must not raise
    from oslo_utils import uuidutils
    for bad in (None, 12345, b'0' * 32, [], 1.5, uuid.UUID(int=5)):
        rep.count('evaluations')
        try:
            g = uuidutils.is_uuid_like(bad)
        except Exception as e:
            g = ('raises', type(e).__name__)
        if g is not False and not isinstance(bad, uuid.UUID):
            rep.fail('is_uuid_like:nonstring', {'value': repr(bad), 'got': repr(g)},
                     {'uuid_nonstring': repr(bad)})
    # everything generate_uuid produces is accepted, and has the right shape
    n_draws = 1000 if not ctx.thorough else 20000
    for dashed in (True, False):
        for _ in range(n_draws):
            u = uuidutils.generate_uuid(dashed=dashed)
            rep.count('evaluations')
            rep.count('generate_uuid_draws')
            ok = isinstance(u, str) and uuidutils.is_uuid_like(u) is True and \
                bool(re.fullmatch(r'[0-9a-f]{8}-[0-9a-f]{4}-4[0-9a-f]{3}-[89ab][0-9a-f]{3}-[0-9a-f]{12}'
                                  if dashed else r'[0-9a-f]{12}4[0-9a-f]{3}[89ab][0-9a-f]{15}', u))
            if not ok:
                rep.fail('generate_uuid', {'dashed': dashed, 'value': repr(u)}, {'generate': dashed})
                break
    rep.sample({'bool_from_string': ['\tYes\n', {'strict': True}], 'want': True})
    rep.sample({'validate_integer': [' 10', {'min': 0, 'max': 10}], 'want': 10})
    rep.sample({'is_uuid_like': '{' + decorate(hex_body(33, 0), 'hyphenated') + '}', 'want': False})
    rep.notes['rule'] = ('complete products per function; every generated case is '
                         'classified by the reference (distinct by its arguments)')
    rep.notes['bounds'] = {'bool_subjects': len(subjects), 'integer_values': len(uniq),
                           'min_max_pairs': len(pairs), 'uuid_lengths': [30, 31, 32, 33, 34],
                           'uuid_decorations': DECOS, 'uuid_defects': DEFECTS,
                           'generate_uuid_draws_per_form': n_draws}
    return rep


def replay(payload):
    from oslo_utils import uuidutils
    import ast
    acc = _Acc()
    lazy = bool(payload.get('lazy'))
    if 'bool' in payload:
        s, strict, default = payload['bool']
        with_lazy(_bool_case)((ast.literal_eval(s), strict, default, lazy), acc)
    elif 'int' in payload:
        v, lo, hi = payload['int']
        with_lazy(_int_case)((ast.literal_eval(v), lo, hi, lazy), acc)
    elif 'len' in payload:
        v, lo, hi = payload['len']
        with_lazy(_len_case)((ast.literal_eval(v), lo, hi, lazy), acc)
    elif 'uuid' in payload:
        try:
            got = uuidutils.is_uuid_like(payload['uuid'])
        except Exception as e:
            got = ('raises', type(e).__name__)
        return {'violates': got is not payload['want'], 'got': repr(got)}
    else:
        return {'violates': True}
    return {'violates': bool(acc.fails), 'problems': acc.fails}


class _Acc:
    def __init__(self):
        self.fails = []

    def fail(self, cls, summary, payload, sigs=()):
        self.fails.append({'class': cls, 'summary': summary})

    def count(self, *a):
        pass

    def nontrivial(self, *a):
        pass
