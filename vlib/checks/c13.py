"""C13 - StopWatch obeys its state machine under every call sequence.

Engine B: BFS over all call sequences of the real StopWatch (deep copy per
transition) under a scripted clock, in lock-step with a reference stopwatch
written from the property statement. States are merged on a canonical form that
factors out translation in time: the class only ever subtracts timestamps and
all readings are small integers, so the symmetry is exact.
"""
import copy
import collections

from vlib import par
from vlib.mc import seq

PROPERTY = 'C13'
LEVEL = 'model_checking'
ENGINE = 'B'
LEVEL_TEXT = ('Every sequence of StopWatch calls up to the stated depth, under every pattern '
'of clock steps from the alphabet (including a clock that goes backwards) and '
'every duration in the list, is executed on the real class and compared step by '
'step (return value or RuntimeError, and resulting state observed on a copy) '
'with a reference stopwatch; additional searches use clock origins 0 and -2, '
'fractional readings, a second watch in use, a clock function replaced before '
'every call, a clock that advances on every reading, an installed utcnow '
'override, and a watch sent through pickle between calls; the bound is on '
'sequence length only.')
LEVEL_NOTE = ('Trusted: the reference stopwatch (vlib/checks/c13.py RefWatch), '
              'that timeutils.now is the only clock read, and that translation '
              'in time is a symmetry for integer readings. Sequences longer '
              'than the depth are not covered; fractional (non-dyadic) readings are explored '
              'to depth 4 (5) without the symmetry; one search replaces the clock function '
              'between calls.')
TECHNIQUE = ('explicit-state BFS over all StopWatch call sequences x clock '
             'steps on the real object, lock-step reference model')

OPS = ['start', 'stop', 'elapsed', 'split', 'resume', 'restart', 'expired',
       'leftover', 'leftover_none', 'elapsed_max1', 'has_started',
       'has_stopped', 'enter', 'exit', 'elapsed_max0', 'splits', 'exit_exc']
STEPS = [0, 1, 5, -3]
ACTIONS = [(s, o) for s in STEPS for o in OPS]

_CLOCK = [0]


def _install_clock():
    from oslo_utils import timeutils
    timeutils.now = lambda: _CLOCK[0]
    return timeutils


# ---------------------------------------------------------------------------
# reference model (from the statement and the method docstrings)

class RefWatch:
    def __init__(self, duration):
        self.duration = duration
        self.state = None          # None | 'STARTED' | 'STOPPED'
        self.started = None
        self.stopped = None
        self.splits = ()           # ((elapsed, length), ...)

    def proj(self, now=None):
        # the same observables as _impl_proj: state, elapsed now, splits
        try:
            el = self._elapsed(_CLOCK[0] if now is None else now)
        except RuntimeError:
            el = 'RuntimeError'
        return (self.state, el, self.splits)

    def _elapsed(self, now):
        if self.state == 'STOPPED':
            return max(0.0, self.stopped - self.started)
        if self.state == 'STARTED':
            return max(0.0, now - self.started)
        raise RuntimeError

    def _start(self, now):
        if self.state == 'STARTED':
            return
        self.started, self.stopped = now, None
        self.state, self.splits = 'STARTED', ()

    def _stop(self, now):
        if self.state == 'STOPPED':
            return
        if self.state != 'STARTED':
            raise RuntimeError
        self.stopped, self.state = now, 'STOPPED'

    def apply(self, op, now):
        """-> result token (or raises RuntimeError)."""
        if op in ('start', 'enter'):
            self._start(now)
            return 'self'
        if op == 'stop':
            self._stop(now)
            return 'self'
        if op in ('exit', 'exit_exc'):
            try:
                self._stop(now)
            except RuntimeError:
                pass
            return None
        if op == 'resume':
            if self.state != 'STOPPED':
                raise RuntimeError
            self.state = 'STARTED'
            return 'self'
        if op == 'restart':
            if self.state == 'STARTED':
                self._stop(now)
            self._start(now)
            return 'self'
        if op == 'split':
            if self.state != 'STARTED':
                raise RuntimeError
            e = self._elapsed(now)
            length = max(0.0, e - self.splits[-1][0]) if self.splits else e
            self.splits = self.splits + ((e, length),)
            return ('split', e, length)
        if op == 'elapsed':
            return self._elapsed(now)
        if op in ('elapsed_max1', 'elapsed_max0'):
            m = 1 if op == 'elapsed_max1' else 0
            e = self._elapsed(now)
            return min(e, max(0.0, m))
        if op in ('leftover', 'leftover_none'):
            if self.state != 'STARTED':
                raise RuntimeError
            if self.duration is None:
                if op == 'leftover':
                    raise RuntimeError
                return None
            return max(0.0, self.duration - self._elapsed(now))
        if op == 'expired':
            e = self._elapsed(now)     # raises when never started
            if self.duration is None:
                return False
            return e > self.duration
        if op == 'has_started':
            return self.state == 'STARTED'
        if op == 'has_stopped':
            return self.state == 'STOPPED'
        if op == 'splits':
            return ('splits',) + self.splits
        raise AssertionError(op)


# ---------------------------------------------------------------------------
# implementation driver

def _impl_apply(w, op):
    if op == 'start':
        r = w.start()
    elif op == 'stop':
        r = w.stop()
    elif op == 'resume':
        r = w.resume()
    elif op == 'restart':
        r = w.restart()
    elif op == 'split':
        s = w.split()
        return ('split', s.elapsed, s.length)
    elif op == 'elapsed':
        return w.elapsed()
    elif op == 'elapsed_max1':
        return w.elapsed(maximum=1)
    elif op == 'elapsed_max0':
        return w.elapsed(maximum=0)
    elif op == 'leftover':
        return w.leftover()
    elif op == 'leftover_none':
        return w.leftover(return_none=True)
    elif op == 'expired':
        return w.expired()
    elif op == 'has_started':
        return w.has_started()
    elif op == 'has_stopped':
        return w.has_stopped()
    elif op == 'enter':
        r = w.__enter__()
    elif op == 'exit':
        return w.__exit__(None, None, None)
    elif op == 'exit_exc':
        # leaving the block because its body raised: the watch is stopped all the same and
        # the exception is not suppressed (a false result)
        e = ValueError('body failed')
        r = w.__exit__(ValueError, e, None)
        return None if not r else ('suppresses', repr(r))
    elif op == 'splits':
        return ('splits',) + tuple((s.elapsed, s.length) for s in w.splits)
    else:
        raise AssertionError(op)
    return 'self' if r is w else ('other', repr(r))


def _impl_proj(w):
    """What can be observed of a watch through its public API at the current
    clock reading (no private attribute is consulted): running / stopped,
    elapsed (or RuntimeError), the splits. The questions are put to a *copy* of
    the watch: observing is not part of the history, so whatever a query might
    remember (a cached answer) never reaches the watch under test unless the
    query is one of the calls of the sequence (they all are in the alphabet)."""
    w = _clone(w)
    try:
        el = w.elapsed()
    except RuntimeError:
        el = 'RuntimeError'
    return ('STARTED' if w.has_started() else 'STOPPED' if w.has_stopped() else None,
            el, tuple((s.elapsed, s.length) for s in w.splits))




_SCALARS = (int, float, str, bool, type(None))


def _clone(w):
    """Copy of a watch: structural for the shapes a watch is made of (scalars, tuples /
    lists of Split records or scalars), copy.deepcopy for anything else."""
    c = copy.copy(w)
    for k, v in vars(c).items():
        if isinstance(v, _SCALARS) or callable(v):
            continue
        if isinstance(v, (tuple, list)) and all(isinstance(x, _SCALARS) or type(x).__name__ == 'Split'
                                                 for x in v):
            if isinstance(v, list):
                setattr(c, k, list(v))
            continue
        return copy.deepcopy(w)
    return c


def _same(a, b):
    """Results must be equal in value *and* kind (bool vs number vs None)."""
    if isinstance(a, tuple) and isinstance(b, tuple):
        return len(a) == len(b) and all(_same(x, y) for x, y in zip(a, b))
    if isinstance(a, bool) or isinstance(b, bool):
        return isinstance(a, bool) and isinstance(b, bool) and a == b
    if a is None or b is None:
        return a is None and b is None
    return a == b


_SHADOW_OPS = ['start', 'split', 'stop', 'resume', 'restart', 'elapsed', 'expired', 'stop']


def _shadow(node):
    """A second, unrelated watch driven by a fixed script between the steps of
    the watch under test (only in the 'shadow' searches): objects must not
    influence each other through the class or the module."""
    from oslo_utils import timeutils
    sh = getattr(node.ref, 'shadow', None)
    if sh is None:
        return
    if sh is True:
        sh = node.ref.shadow = timeutils.StopWatch(7)
    op = _SHADOW_OPS[(len(node.hist) * 5 + 3) % len(_SHADOW_OPS)]
    try:
        _impl_apply(sh, op)
    except RuntimeError:
        pass


def _step(node, action):
    step, op = action
    now = node.extra + step
    if getattr(node.ref, 'pickle', False):
        # the watch travels through pickle between calls (another process, a cache): equal
        # values, different objects - nothing may depend on identity
        import pickle
        try:
            impl = pickle.loads(pickle.dumps(node.impl, (len(node.hist) % 4) + 2))
        except Exception:
            impl = _clone(node.impl)      # this implementation's watches cannot be pickled
    else:
        impl = _clone(node.impl)
    ref = copy.copy(node.ref)
    if getattr(ref, 'shadow', None) not in (None, True):
        ref.shadow = _clone(ref.shadow)
    _CLOCK[0] = now
    if getattr(node.ref, 'fresh_clock', False):
        # the clock seam is timeutils.now *at the time of the call*: every step installs a new
        # function object that knows only the current reading, so a reference to an
        # earlier one (kept from construction, say) reads a stale clock
        from oslo_utils import timeutils
        timeutils.now = (lambda v: (lambda: v))(now)
    new_hist_node = seq.Node(None, ref, node.hist, None)
    _shadow(new_hist_node)
    try:
        got = ('ret', _impl_apply(impl, op))
    except RuntimeError:
        got = ('RuntimeError',)
    except Exception as e:            # any other class is itself a violation
        got = ('raised', type(e).__name__)
    before = ref.proj()
    try:
        want = ('ret', ref.apply(op, now))
    except RuntimeError:
        want = ('RuntimeError',)
        assert ref.proj() == before
    mono = node.ref.mono and step >= 0
    ref.mono = mono
    problem = None
    if not _same(got, want):
        problem = {'kind': 'result', 'got': got, 'want': want}
    elif _impl_proj(impl) != ref.proj():
        problem = {'kind': 'state', 'got': _impl_proj(impl),
                   'want': ref.proj()}
    # direct clauses of the statement, on the implementation's own answers
    elif op.startswith('elapsed') and got[0] == 'ret' and got[1] < 0:
        problem = {'kind': 'negative-elapsed', 'got': got}
    elif op == 'elapsed_max1' and got[0] == 'ret' and got[1] > 1:
        problem = {'kind': 'exceeds-maximum', 'got': got}
    elif mono and op == 'split' and got[0] == 'ret':
        sp = _impl_proj(impl)[2]
        if any(sp[i][0] > sp[i + 1][0] for i in range(len(sp) - 1)):
            problem = {'kind': 'decreasing-splits', 'got': sp}
    new = seq.Node(impl, ref, node.hist + (action,), now)
    return new, problem


def _canon_abs(node):
    """Canonical state without the translation symmetry (fractional readings: rounding
    depends on the absolute values)."""
    items = []
    for k, v in sorted(node.impl.__dict__.items()):
        if k == '_splits' or (isinstance(v, (tuple, list)) and v and hasattr(v[0], 'elapsed')):
            items.append((k, tuple((s.elapsed, s.length) for s in v)))
        elif callable(v):
            items.append((k, 'callable'))
        else:
            items.append((k, repr(v)))
    return (tuple(items), node.extra, node.ref.mono)


def _canon(node):
    """Canonical state: every instance attribute of the real object (so hidden
    state is never merged away); numeric attributes are taken relative to the
    current clock reading (translation symmetry - valid only as far as absolute
    readings do not matter, hence the additional searches from origins 0, -2)."""
    now = node.extra
    items = []
    for k, v in sorted(node.impl.__dict__.items()):
        if k == '_duration':
            continue
        if isinstance(v, (int, float)) and not isinstance(v, bool):
            items.append((k, v - now))
        elif k == '_splits' or (isinstance(v, (tuple, list)) and v and hasattr(v[0], 'elapsed')):
            items.append((k, tuple((s.elapsed, s.length) for s in v)))
        elif callable(v):
            items.append((k, 'callable'))
        else:
            items.append((k, repr(v)))
    return (tuple(items), node.ref.mono)


FRAC_STEPS = [0, 0.1, 0.2, 0.7]
FRAC_ACTIONS = [(s, o) for s in FRAC_STEPS for o in OPS if o not in ('has_started', 'has_stopped', 'enter',
                                                                    'exit', 'elapsed_max0', 'exit_exc')]


def _explore(job):
    duration, depth, origin = job[:3]
    mode = job[3] if len(job) > 3 else None
    shadow = mode is True
    timeutils = _install_clock()
    counters = collections.Counter()
    fails = []
    _CLOCK[0] = origin
    ref = RefWatch(duration)
    ref.mono = True
    if shadow:
        ref.shadow = True
    if mode == 'fresh-clock':
        ref.fresh_clock = True
        timeutils.now = (lambda v: (lambda: v))(origin)
    if mode == 'utc-override':
        # an overridden utcnow() (TimeFixture) is installed: the watch still measures on now()
        import datetime
        timeutils.set_time_override(datetime.datetime(2020, 1, 1, 12, 0, 0))
    if mode == 'pickle':
        ref.pickle = True
    root = seq.Node(timeutils.StopWatch(duration), ref, (), origin)

    def on_fail(node, action, problem):
        fails.append({'duration': duration, 'origin': origin, 'shadow': bool(shadow), 'mode': mode,
                      'history': [list(a) for a in node.hist + (action,)],
                      'problem': problem})

    if mode == 'fractional':
        n = seq.bfs([root], FRAC_ACTIONS, _step, _canon_abs, depth, on_fail, counters)
    else:
        n = seq.bfs([root], ACTIONS, _step, _canon, depth, on_fail, counters)
    _install_clock()
    if mode == 'utc-override':
        timeutils.clear_time_override()
    return duration, dict(counters), fails[:50], n


# ---------------------------------------------------------------------------
# a clock that moves *during* a call (every reading advances it): the number of
# readings per call is not specified, so only the clauses that hold for any
# monotonic clock are asserted: elapsed >= 0 and never above a requested
# maximum, 0 <= leftover <= duration, elapsed values observed on one run of the
# watch never decrease, split lengths >= 0.

class TickingClock:
    def __init__(self, start, tick):
        self.t, self.tick, self.reads = start, tick, 0

    def __call__(self):
        v = self.t
        self.t += self.tick
        self.reads += 1
        return v


TICK_OPS = ['start', 'stop', 'elapsed', 'split', 'resume', 'restart', 'expired', 'leftover',
            'elapsed_max1', 'enter', 'exit']
TICK_STEPS = [0, 1.625, 0.125]


def _tick_run(duration, tick, history):
    """Runs one history from scratch under a ticking clock. -> problem or None"""
    from oslo_utils import timeutils
    clock = TickingClock(10.0, tick)
    timeutils.now = clock
    try:
        w = timeutils.StopWatch(duration)
        last_elapsed = None
        for step, op in history:
            clock.t += step
            try:
                r = _impl_apply(w, op)
            except RuntimeError:
                r = None
                if op in ('start', 'restart', 'enter', 'exit'):
                    return {'kind': 'legal-call-raised', 'op': op}
                continue
            if op in ('start', 'restart', 'enter'):
                last_elapsed = None
            if op in ('elapsed', 'elapsed_max1') or op == 'split':
                e = r if op != 'split' else r[1]
                if e < 0:
                    return {'kind': 'negative-elapsed', 'op': op, 'got': e}
                if op == 'elapsed_max1' and e > 1:
                    return {'kind': 'exceeds-maximum', 'got': e}
                if op != 'elapsed_max1':
                    if last_elapsed is not None and e < last_elapsed:
                        return {'kind': 'elapsed-went-backwards', 'before': last_elapsed, 'after': e}
                    last_elapsed = e
                if op == 'split' and r[2] < 0:
                    return {'kind': 'negative-split-length', 'got': r[2]}
            if op == 'leftover' and r is not None:
                if r < 0 or (duration is not None and r > duration):
                    return {'kind': 'leftover-out-of-range', 'got': r, 'duration': duration}
        return None
    finally:
        _install_clock()


def _tick_job(job):
    import itertools
    duration, tick, depth = job
    n = 0
    probs = []
    acts = [(s_, o) for s_ in TICK_STEPS for o in TICK_OPS]
    for d in range(1, depth + 1):
        for hist in itertools.product(acts, repeat=d):
            if hist[0][1] not in ('start', 'enter', 'restart'):
                continue
            n += 1
            p = _tick_run(duration, tick, hist)
            if p is not None and len(probs) < 5:
                probs.append({'duration': duration, 'tick': tick,
                              'history': [list(a) for a in hist], 'problem': p})
    return n, probs


def run(ctx):
    rep = ctx.new_report()
    depth = 7 if ctx.thorough else 6
    durations = [None, 0, 2, 1000, 1, 5, 3, 0.5]
    if ctx.thorough:
        durations += [4, 6, 8, 10 + ctx.seed % 7]
    jobs = [(d, depth, 100) for d in durations]
    # absolute clock readings 0 and negative ones: a watch must not care
    jobs += [(d, depth, o) for o in (0, -2) for d in (None, 2)]
    # the same search with a second watch being used in between (instance isolation)
    jobs += [(2, depth - 1, 100, True), (None, depth - 1, 0, True)]
    # readings that are not dyadic: 0.1 + 0.2 != 0.3, so "elapsed", "leftover" and "expired"
    # must be computed the way the statement defines them (from the same elapsed value)
    jobs += [(d, 4 if not ctx.thorough else 5, o, 'fractional') for d in (0.2, 0.3, 0.5, 0.1)
             for o in (0.1, 0.2)]
    # the clock function is replaced between calls
    jobs += [(2, depth - 1, 100, 'fresh-clock'), (None, depth - 2, 0, 'fresh-clock')]
    jobs += [(2, depth - 2, 100, 'utc-override'), (2, depth - 1, 100, 'pickle'), (None, depth - 2, 0, 'pickle')]
    # constructor clause, legal side: None, zero and positive durations make a watch
    from oslo_utils import timeutils as _tu
    refused = set()
    for d in sorted({j[0] for j in jobs} | {0, 0.0}, key=repr):
        rep.count('evaluations')
        try:
            _tu.StopWatch(d)
        except Exception as e:
            refused.add(d)
            rep.fail('ctor-legal-duration-refused', {'duration': d, 'exception': type(e).__name__},
                     {'ctor_legal': d})
    jobs = [j for j in jobs if j[0] not in refused]
    res = par.pmap(_explore, jobs)
    for duration, counters, fails, nstates in res:
        rep.counters.update({k: v for k, v in counters.items()
                             if k != 'max_depth'})
        rep.counters['max_depth'] = max(rep.counters['max_depth'],
                                        counters.get('max_depth', 0))
        rep.count('evaluations', counters['transitions'])
        for i in range(nstates):
            rep.nontrivial('%r/%d/%d' % (duration, i, len(rep.distinct)))
        for f in fails:
            cls = '%s:%s' % (f['problem']['kind'], f['history'][-1][1])
            if f.get('shadow'):
                cls = 'with-a-second-watch-in-use:' + cls
            if f.get('mode') in ('fractional', 'fresh-clock', 'utc-override', 'pickle'):
                cls = {'fractional': 'fractional-readings:',
                       'fresh-clock': 'clock-function-replaced-between-calls:',
                       'utc-override': 'with-utcnow-override-installed:',
                       'pickle': 'watch-pickled-between-calls:'}[f['mode']] + cls
            rep.fail(cls, dict(f['problem'], clock_origin=f.get('origin', 100)),
                     {'duration': duration, 'history': f['history'],
                      'origin': f.get('origin', 100), 'shadow': f.get('shadow', False),
                      'mode': f.get('mode') if isinstance(f.get('mode'), str) else None})
    tick_jobs = [(d, t, 4 if ctx.thorough else 3) for d in (2.0, 0.5, None) for t in (0.25, 1.0)
                 if d not in refused]
    for n, probs in par.pmap(_tick_job, tick_jobs):
        rep.count('ticking_clock_histories', n)
        rep.count('evaluations', n)
        rep.count('transitions', n)
        rep.count('traces_validated_against_impl', n)
        for p in probs:
            rep.fail('ticking-clock:%s' % p['problem']['kind'], p,
                     {'tick': [p['duration'], p['tick'], p['history']]})
    # constructor clause: negative durations are refused
    from oslo_utils import timeutils
    for d in (-1, -0.5, -1e-9):
        rep.count('evaluations')
        try:
            timeutils.StopWatch(d)
            rep.fail('ctor-negative', {'duration': d}, {'ctor': d})
        except ValueError:
            pass
    rep.sample({'duration': 2, 'history': [[0, 'start'], [5, 'split'],
                                           [1, 'stop'], [0, 'resume'],
                                           [-3, 'elapsed']]})
    rep.notes['rule'] = (
        'BFS over every sequence of <= %d actions; an action = (clock step in '
        '%r, then one of %d StopWatch calls); one search per duration in %r; '
        'states merged on (state, timestamps relative to start, splits, '
        'clock-was-monotonic flag). distinct_nontrivial = number of distinct '
        'canonical states reached (each is a different watch configuration).'
        % (depth, STEPS, len(OPS), durations))
    rep.notes['bounds'] = {'depth': depth, 'ops': OPS, 'clock_steps': STEPS,
                           'clock_origins': [100, 0, -2],
                           'durations': [repr(d) for d in durations]}
    rep.notes['assumptions'] = [
        'timeutils.now is the only clock StopWatch reads (replaced by a scripted clock)',
        'translation of all timestamps by a constant is a symmetry (integer readings, only differences are used)']
    return rep


def replay(payload):
    """Plain re-execution of one history on a fresh watch, no explorer."""
    timeutils = _install_clock()
    if 'tick' in payload:
        d, t, hist = payload['tick']
        p = _tick_run(d, t, [tuple(a) for a in hist])
        return {'violates': p is not None, 'problem': p}
    if 'ctor_legal' in payload:
        try:
            timeutils.StopWatch(payload['ctor_legal'])
            return {'violates': False, 'observed': 'constructed'}
        except Exception as e:
            return {'violates': True, 'observed': type(e).__name__}
    if 'ctor' in payload:
        try:
            timeutils.StopWatch(payload['ctor'])
            return {'violates': True, 'observed': 'constructed'}
        except ValueError:
            return {'violates': False, 'observed': 'ValueError'}
    ref = RefWatch(payload['duration'])
    ref.mono = True
    origin = payload.get('origin', 100)
    _CLOCK[0] = origin
    if payload.get('shadow'):
        ref.shadow = True
    if payload.get('mode') == 'fresh-clock':
        ref.fresh_clock = True
        timeutils.now = (lambda v: (lambda: v))(origin)
    if payload.get('mode') == 'utc-override':
        import datetime
        timeutils.set_time_override(datetime.datetime(2020, 1, 1, 12, 0, 0))
    if payload.get('mode') == 'pickle':
        ref.pickle = True
    node = seq.Node(timeutils.StopWatch(payload['duration']), ref, (), origin)
    trace = []
    for step, op in payload['history']:
        node, problem = _step(node, (step, op))
        trace.append({'clock': node.extra, 'op': op,
                      'impl_state': _impl_proj(node.impl), 'problem': problem})
        if problem is not None:
            _install_clock()
            timeutils.clear_time_override()
            return {'violates': True, 'trace': trace}
    _install_clock()
    timeutils.clear_time_override()
    return {'violates': False, 'trace': trace}
