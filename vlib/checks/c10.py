"""C10 - string_to_bytes computes the exact byte quantity or raises ValueError.

Engine C: the full product signs x magnitudes x prefixes (all 23 table prefixes
and foreign ones) x unit spellings x unit systems x return_int, compared with
exact rational arithmetic; QemuImgInfo human-readable size fields against the
same arithmetic, an explicit '(N bytes)' figure taking precedence.
"""
import math
import warnings
from fractions import Fraction

from vlib.mc import enum as E

PROPERTY = 'C10'
LEVEL = 'model_checking'
ENGINE = 'C'
TECHNIQUE = ('stateless bounded model checking: complete enumeration of the product sign x magnitude x '
             'prefix x unit x unit system x return_int against exact Fraction '
             'arithmetic')
LEVEL_TEXT = ('The complete product of the listed signs, magnitudes (integers, '
              'decimals, leading-dot, 20 digits, malformed), all prefixes '
              'admitted by any system plus foreign ones, unit spellings, unit '
              'systems (incl. unknown) and return_int is evaluated; admitted '
              'texts must give the exact rational value (equal when it is a '
              'double, within 4 ulp otherwise; ceiling for return_int), every '
              'other text ValueError and nothing else. QemuImgInfo size fields '
              'are enumerated over the forms qemu-img prints, (N bytes) figures up to 2^64+1, '
              'and whole documents in every order of their blocks (sizes, snapshot table with '
              '1..3 rows, backing file, format-specific block) x 5 size spellings.')
LEVEL_NOTE = ('Trusted: the hand-written reference grammar (vlib/checks/c10.py '
              'parse). Magnitudes are the listed literals, not all decimals; '
              'a 4-ulp tolerance is allowed where the exact value is not a '
              'double (three roundings happen in the implementation).')

SIGNS = ['', '+', '-']
MAGS = ['0', '1', '8', '1024', '1.5', '.5', '0.125', '123456789', '12345678901234567890',
        '7.25', '0.1', '999.999', '1.', '', '1e3', '1,5', ' 1', '0x10', '1_0', '.', '1.2.3',
        # many fractional digits: a quantity a hair above / below an integer
        '0.0000000004', '1.0000000001', '0.9999999999', '2.0000000000001', '0.30000000000000004',
        '2.007', '0.000000000000000000001']
TABLE_PREFIXES = ['k', 'ki', 'K', 'Ki', 'M', 'Mi', 'G', 'Gi', 'T', 'Ti', 'P', 'Pi', 'E', 'Ei',
                  'Z', 'Zi', 'Y', 'Yi', 'R', 'Ri', 'Q', 'Qi']
PREFIXES = [''] + TABLE_PREFIXES + ['m', 'Km', 'i', 'KI', 'D', 'Di', 'kI', 'Mii', 'g']
UNITS = ['b', 'bit', 'B', 'bits', '', 'Byte', 'BIT', 'bB']
class _StrSub(str):
    pass


# equal to the documented names but not the same (interned) objects
SYSTEMS = ['IEC', 'SI', 'mixed', 'bogus', None, 'iec', 'MIXED'.lower(), _StrSub('IEC'),
           ''.join(['S', 'I'])]
EXP = {'k': 1, 'K': 1, 'M': 2, 'G': 3, 'T': 4, 'P': 5, 'E': 6, 'Z': 7, 'Y': 8, 'R': 9, 'Q': 10}

ADMITTED = {
    'IEC': [p for p in TABLE_PREFIXES if p[0] != 'k'],
    'SI': [p for p in TABLE_PREFIXES if not p.endswith('i') and p != 'K'],
    'mixed': list(TABLE_PREFIXES),
}


def parse_number(s):
    """[sign] digits* [. ] digits+ ; -> Fraction or None (hand-written)."""
    if not s:
        return None
    i = 0
    if s[0] in '+-':
        i = 1
    body = s[i:]
    if not body or not all(c in '0123456789.' for c in body) or body.count('.') > 1:
        return None
    if body.endswith('.') or body == '.':
        return None
    if not all(ord(c) < 128 for c in body):
        return None
    return Fraction(s)


def reference(text, system):
    """-> ('value', Fraction) | ('ValueError',)"""
    if system not in ADMITTED:
        return ('ValueError',)
    for unit in ('bit', 'b', 'B'):
        if text.endswith(unit):
            rest = text[:-len(unit)]
            cands = sorted([p for p in ADMITTED[system] if rest.endswith(p)], key=len,
                           reverse=True) + ['']
            for p in cands:
                num = rest[:len(rest) - len(p)] if p else rest
                val = parse_number(num)
                if val is None:
                    continue
                lit = val
                if p:
                    if system == 'IEC':
                        base = 1024
                    elif system == 'SI':
                        base = 1000
                    else:
                        base = 1024 if p.endswith('i') else 1000
                    val = val * base ** EXP[p[0]]
                if unit in ('b', 'bit'):
                    val = val / 8
                return ('value', val, lit)
    return ('ValueError',)


def ulp(x):
    return math.ulp(x) if x == x and x not in (float('inf'), float('-inf')) else float('inf')


def _case(vals, acc):
    from oslo_utils import strutils
    sign, mag, prefix, unit, system = vals
    text = sign + mag + prefix + unit
    want = reference(text, system)
    res = {}
    for ri in (False, True):
        try:
            kw = {} if system is None else {'unit_system': system}
            if system is None:
                want_here = reference(text, 'IEC')
            else:
                want_here = want
            res[ri] = ('value', strutils.string_to_bytes(text, return_int=ri, **kw))
            again = strutils.string_to_bytes(text, return_int=ri, **kw)
            if again != res[ri][1] or type(again) is not type(res[ri][1]):
                res[ri] = ('raises', 'UnstableAnswer:%r-then-%r' % (res[ri][1], again))
        except ValueError:
            res[ri] = ('ValueError',)
        except Exception as e:
            res[ri] = ('raises', type(e).__name__)
    want = want_here
    payload = {'text': text, 'unit_system': system}
    # the call that leaves return_int out is the exact-quantity call (not the ceiling)
    try:
        dflt = ('value', strutils.string_to_bytes(text, **kw))
    except ValueError:
        dflt = ('ValueError',)
    except Exception as e:
        dflt = ('raises', type(e).__name__)
    if dflt[0] != res[False][0] or (dflt[0] == 'value' and (
            dflt[1] != res[False][1] or type(dflt[1]) is not type(res[False][1]))):
        acc.fail('return_int-left-out-differs-from-False',
                 {'text': text, 'unit_system': system, 'got': repr(dflt), 'with_False': repr(res[False])},
                 dict(payload, return_int=False))
        return
    for ri in (False, True):
        got = res[ri]
        if want[0] == 'ValueError':
            if got != ('ValueError',):
                acc.fail('should-raise-ValueError:%s' % got[0],
                         {'text': text, 'unit_system': system, 'return_int': ri, 'got': repr(got)},
                         dict(payload, return_int=ri))
                return
            continue
        ex = want[1]
        if got[0] != 'value':
            acc.fail('admitted-text-rejected:%s' % (got[1] if len(got) > 1 else got[0]),
                     {'text': text, 'unit_system': system, 'return_int': ri, 'got': repr(got),
                      'exact': str(ex)}, dict(payload, return_int=ri))
            return
        g = got[1]
        lit_exact = Fraction(float(want[2])) == want[2]
        try:
            fex = float(ex)
            representable = Fraction(fex) == ex
        except OverflowError:
            fex, representable = None, False
        if not ri:
            if not isinstance(g, float) and not (isinstance(g, int) and not isinstance(g, bool)):
                acc.fail('wrong-type', {'text': text, 'got': repr(g)}, dict(payload, return_int=ri))
                return
            if representable and lit_exact:
                ok = g == fex
            else:
                ok = fex is not None and abs(Fraction(g) - ex) <= 4 * Fraction(ulp(fex))
            if not ok:
                acc.fail('value', {'text': text, 'unit_system': system, 'got': repr(g),
                                   'exact': str(ex), 'as_float': repr(fex)},
                         dict(payload, return_int=ri))
                return
        else:
            f = res[False][1]
            if not isinstance(g, int) or isinstance(g, bool):
                acc.fail('return_int-not-int', {'text': text, 'got': repr(g)},
                         dict(payload, return_int=ri))
                return
            ok = g == math.ceil(Fraction(f))
            if representable and lit_exact:
                ok = ok and g == math.ceil(ex)
            if not ok:
                acc.fail('ceiling', {'text': text, 'unit_system': system, 'got': g,
                                     'float_result': repr(f), 'exact_ceiling': str(math.ceil(ex))},
                         dict(payload, return_int=ri))
                return
    if want[0] == 'value':
        acc.count('admitted_texts')
        acc.nontrivial('%s|%s' % (text, system))
    else:
        acc.count('rejected_texts')


QEMU_FIELDS = [('virtual size', 'virtual_size'), ('disk size', 'disk_size'),
               ('cluster_size', 'cluster_size')]
QEMU_NUMS = ['0', '1', '64', '1023', '196', '4.4', '1.5', '0.5', '10', '2e+03', '5E+02']
QEMU_UNITS = ['', 'K', 'M', 'G', 'T', ' KiB', ' MiB', ' GiB', ' TiB', 'KB', 'MB',
              # the same arithmetic as string_to_bytes: bit units are divided by 8
              ' Kb', 'Kib', ' Mbit', 'Gibit']
QEMU_TAILS = [None, 'exact', 'odd']


def _qemu_case(vals, acc):
    from oslo_utils.imageutils import QemuImgInfo
    (label, attr), num, unit, tail = vals
    if unit == '' and ('.' in num):
        return                      # qemu-img never prints a fractional byte count
    if 'e' in num.lower():
        mag = Fraction(int(float(num)))
    else:
        mag = Fraction(num)
    u = unit.strip()
    if u and (u.endswith('b') or u.endswith('bit')):
        exact = math.ceil(mag * 1024 ** EXP[u[0]] / 8)
    elif u:
        exact = math.ceil(mag * 1024 ** EXP[u[0]])
    else:
        exact = int(mag)
    text = '%s%s' % (num, unit)
    if tail == 'exact':
        text += ' (%d bytes)' % exact
        want = exact
    elif tail == 'odd':
        text += ' (%d bytes)' % (exact + 12345)     # the explicit figure wins
        want = exact + 12345
    else:
        want = exact
    out = 'image: x.img\nfile format: raw\n%s: %s\n' % (label, text)
    with warnings.catch_warnings():
        warnings.simplefilter('ignore')
        try:
            info = QemuImgInfo(out)
            got = getattr(info, attr)
        except Exception as e:
            got = ('raises', type(e).__name__)
    acc.nontrivial(out)
    if got != want or isinstance(got, bool):
        acc.fail('qemu:%s' % ('tail' if tail else 'human'),
                 {'line': '%s: %s' % (label, text), 'got': repr(got), 'want': want},
                 {'qemu': out, 'attr': attr, 'want': want})


TAIL_FIGURES = [4096, 0, (1 << 53) + 1, (1 << 63) - 1, 9223372036854775295, (1 << 64) + 1,
                12345678901234567891]


def _qemu_tail_wins(vals, acc):
    """An explicit '(N bytes)' figure takes precedence whatever the rounded figure looks like,
    and is taken digit for digit (it is an integer, not a float)."""
    from oslo_utils.imageutils import QemuImgInfo
    (label, attr), figure, n = vals
    out = 'image: x.img\n%s: %s (%d bytes)\n' % (label, figure, n)
    with warnings.catch_warnings():
        warnings.simplefilter('ignore')
        try:
            got = getattr(QemuImgInfo(out), attr)
        except Exception as e:
            got = ('raises', type(e).__name__)
    acc.nontrivial(out)
    if got != n or isinstance(got, (bool, float)):
        acc.fail('qemu:tail-precedence', {'line': '%s: %s (%d bytes)' % (label, figure, n),
                                          'got': repr(got), 'want': n},
                 {'qemu': out, 'attr': attr, 'want': n})


SIZE_FORMS = ['%(n)d', '64M', '64 MiB', '64M (%(n)d bytes)', '64 MiB (%(n)d bytes)']
SNAP_ROWS = ['1        d9a9784a500742a7bb95627bb3aace38    0 2012-08-20 10:52:46 00:00:00.000',
             '3        snap-two                         1.7G 2011-10-04 19:04:00 32:06:34.974',
             '4        third                            11M 2013-01-01 00:00:01 100:00:00.001']


def _qemu_layout_case(vals, acc):
    """Whole documents: the order in which qemu-img's blocks follow each other (and what
    directly follows the snapshot table) must not change what any field parses to."""
    from oslo_utils.imageutils import QemuImgInfo
    order, form, nsnap = vals
    n = 67108864
    size = SIZE_FORMS[form] % {'n': n}
    blocks = {
        'V': ['virtual size: ' + size],
        'D': ['disk size: ' + size],
        'C': ['cluster_size: ' + size],
        'S': ['Snapshot list:', 'ID        TAG                 VM SIZE                DATE       VM CLOCK'] +
             SNAP_ROWS[:nsnap],
        'B': ['backing file: /a/b.img (actual path: /c/d.img)'],
        'F': ['Format specific information:', '    compat: 1.1', '    lazy refcounts: false'],
    }
    lines = ['image: x.img', 'file format: qcow2']
    for k in order:
        lines += blocks[k]
    out = '\n'.join(lines) + '\n'
    acc.nontrivial(out)
    with warnings.catch_warnings():
        warnings.simplefilter('ignore')
        try:
            info = QemuImgInfo(out)
            got = {'virtual_size': info.virtual_size, 'disk_size': info.disk_size,
                   'cluster_size': info.cluster_size, 'backing_file': info.backing_file,
                   'snapshots': [(x.get('id'), x.get('tag'), x.get('vm_size'), x.get('date'),
                                  x.get('vm_clock')) for x in info.snapshots],
                   'file_format': info.file_format, 'image': info.image}
        except Exception as e:
            got = {'raises': type(e).__name__}
    want = {'virtual_size': n, 'disk_size': n, 'cluster_size': n, 'backing_file': '/c/d.img',
            'snapshots': [tuple(r.split()[:4]) + (' '.join(r.split()[4:]),) for r in SNAP_ROWS[:nsnap]],
            'file_format': 'qcow2', 'image': 'x.img'}
    if got != want:
        bad = sorted(k for k in want if got.get(k) != want[k]) if 'raises' not in got else ['raises']
        acc.fail('qemu:document-layout:' + bad[0],
                 {'order': ''.join(order), 'size_form': size, 'snapshot_rows': nsnap,
                  'wrong_fields': {k: repr(got.get(k)) for k in bad}, 'raises': got.get('raises')},
                 {'qemu_doc': out, 'want': {k: (v if k != 'snapshots' else [list(t) for t in v])
                                            for k, v in want.items()}})


def run(ctx):
    rep = ctx.new_report()
    from vlib.ref import noise as _noise
    E.set_noise(_noise.strutils_noise())
    mags = list(MAGS)
    if ctx.thorough:
        mags += ['3', '0.3', '1000', '1023.999', '%d' % (ctx.seed * 7919 + 17), '00012', '0.0']
    else:
        mags += ['%d.%d' % (ctx.seed + 2, ctx.seed % 10)]
    from vlib import lits
    nl = lits.new('oslo_utils/strutils.py', 'oslo_utils/imageutils/qemu.py')
    for v in nl['ints'] + nl['floats']:
        if abs(v) < 1e30:
            mags += [repr(abs(v)), repr(abs(v) + 1) if isinstance(v, int) else repr(abs(v) * 1.5),
                     '0.' + '0' * min(int(abs(v)), 25) + '4' if isinstance(v, int) and 0 < v < 26 else repr(abs(v))]
    mags = list(dict.fromkeys(mags))
    E.run(rep, 'string_to_bytes', [SIGNS, mags, PREFIXES, UNITS, SYSTEMS], _case)
    E.run(rep, 'qemu-human', [QEMU_FIELDS, QEMU_NUMS, QEMU_UNITS, QEMU_TAILS], _qemu_case)
    E.run(rep, 'qemu-tail-precedence', [QEMU_FIELDS, ['0.5', '1.0 XiB', '10g', '1.0 Gi', '4K', '4.0K',
                                                     '1e+400 TiB', '3.9 KiB', '4096', '8 EiB', '16E'],
                                        TAIL_FIGURES], _qemu_tail_wins)
    import itertools
    orders = [o for k in (5, 6) for o in itertools.permutations('VDCSBF', k) if 'S' in o and
              (k == 6 or 'F' not in o)]
    E.run(rep, 'qemu-document-layout', [orders, list(range(len(SIZE_FORMS))), [1, 2, 3]],
          _qemu_layout_case)
    # 'None' / 'unavailable' sizes and the JSON form pass numbers through
    from oslo_utils.imageutils import QemuImgInfo
    with warnings.catch_warnings():
        warnings.simplefilter('ignore')
        for word in ('None', 'unavailable'):
            rep.count('evaluations')
            try:
                got = QemuImgInfo('image: x\ndisk size: %s\n' % word).disk_size
            except Exception as e:
                got = ('raises', type(e).__name__)
            if got != 0:
                rep.fail('qemu:unavailable', {'word': word, 'got': repr(got)},
                         {'qemu': 'image: x\ndisk size: %s\n' % word, 'attr': 'disk_size', 'want': 0})
    rep.sample({'text': '1.5KiB', 'unit_system': 'mixed', 'exact': '1536'})
    rep.sample({'text': '-.5Qib', 'unit_system': 'IEC', 'return_int': True})
    rep.sample({'qemu_line': 'virtual size: 4.4M (4613735 bytes)'})
    rep.notes['rule'] = (
        'complete product signs x magnitudes x prefixes x units x systems, each '
        'with return_int False and True; non-trivial = the text is admitted by '
        'the unit system (value compared with exact arithmetic); rejected texts '
        'are counted separately. QemuImgInfo: fields x numbers x units x tails.')
    rep.notes['bounds'] = {'signs': SIGNS, 'magnitudes': mags, 'prefixes': PREFIXES,
                           'units': UNITS, 'systems': [repr(s) + ('' if type(s) in (str, type(None)) else ' (str subclass)') for s in SYSTEMS],
                           'qemu_numbers': QEMU_NUMS, 'qemu_units': QEMU_UNITS}
    return rep


def replay(payload):
    if 'qemu_doc' in payload:
        from oslo_utils.imageutils import QemuImgInfo
        with warnings.catch_warnings():
            warnings.simplefilter('ignore')
            try:
                info = QemuImgInfo(payload['qemu_doc'])
                got = {'virtual_size': info.virtual_size, 'disk_size': info.disk_size,
                       'cluster_size': info.cluster_size, 'backing_file': info.backing_file,
                       'snapshots': [[x.get('id'), x.get('tag'), x.get('vm_size'), x.get('date'),
                                      x.get('vm_clock')] for x in info.snapshots],
                       'file_format': info.file_format, 'image': info.image}
            except Exception as e:
                got = {'raises': type(e).__name__}
        return {'violates': got != payload['want'], 'got': got}
    if 'qemu' in payload:
        from oslo_utils.imageutils import QemuImgInfo
        with warnings.catch_warnings():
            warnings.simplefilter('ignore')
            try:
                got = getattr(QemuImgInfo(payload['qemu']), payload['attr'])
            except Exception as e:
                got = ('raises', type(e).__name__)
        return {'violates': got != payload['want'], 'got': repr(got), 'want': payload['want']}
    acc = _Acc()
    system = payload['unit_system']
    text = payload['text']
    # re-run the one text through the same judge
    _judge_text(text, system, acc)
    return {'violates': bool(acc.fails), 'problems': acc.fails}


class _Acc:
    def __init__(self):
        self.fails = []

    def fail(self, cls, summary, payload, sigs=()):
        self.fails.append({'class': cls, 'summary': summary})

    def count(self, *a):
        pass

    def nontrivial(self, *a):
        pass


def _judge_text(text, system, acc):
    """Judge one complete text (used by replay): the factorisation into
    sign/magnitude/prefix/unit does not matter to the reference."""
    _case(('', text, '', '', system), acc)
