"""C15 - EUI-64, host:port and URL helpers round-trip.

Engine C: MAC boundary bit patterns x IPv6 prefixes (with and without host
bits) - forward, then inverse, against an independent computation with
`ipaddress`; must-raise inputs; hosts x ports x default ports through
escape_ipv6 + parse_host_port; the product of URL components against
urllib.parse.urlsplit and parse_qsl.
"""
import ipaddress
import itertools
from urllib import parse

from vlib.mc import enum as E

PROPERTY = 'C15'
LEVEL = 'model_checking'
ENGINE = 'C'
TECHNIQUE = ('stateless bounded model checking: complete enumeration of MAC x prefix, host x port x '
             'default and URL component products against stdlib references and '
             'round-trip identities')
LEVEL_TEXT = ('Every MAC of the boundary family (all-zero, all-ones, each '
              'single bit, U/L and multicast bits, seed values) with every '
              'prefix of the family (lengths 0..64 with and without host bits, '
              'bare addresses) is pushed through get_ipv6_addr_by_EUI64, '
              'compared with network address | modified EUI-64 computed with '
              'ipaddress, and pulled back through get_mac_addr_by_ipv6; the '
              'full host x port x default product and the full URL component '
              'product are compared with the standard library.')
LEVEL_NOTE = ('Prefixes whose network address has bits inside the 64-bit interface '
              'identifier (the statement does not say how they combine) and IPv4 CIDR '
              'prefixes only need to return or raise ValueError/TypeError. Hosts, ports and URL '
              'components are the listed alphabets.')


def macs(seed):
    out = [0, 1, (1 << 48) - 1, 0x020000000000, 0x010000000000, 0xfeffffffffff,
           0x00163e000001, 0x525400cf2d31]
    out += [1 << b for b in range(48)]
    for i in range(3):
        out.append((seed * 0x9E3779B97F4A7C15 + i * 0xBF58476D1CE4E5B9) & ((1 << 48) - 1))
    return sorted(set(out))


def mac_str(m, sep=':'):
    return sep.join('%02x' % ((m >> (8 * (5 - i))) & 0xff) for i in range(6))


PREFIXES = ['2001:db8::/64', 'fe80::/64', '::/64', 'ffff:ffff:ffff:ffff::/64',
            '2001:db8::1/64', '2001:db8:0:1:dead::/64', '2001:db8:8000::/32', '2001:db8::/48',
            '::/0', '2001:db8:1:2::/63', '2001:db8::/10', 'fd00::/8', '2001:db8::', 'fe80::',
            '2001:db8:1:2:0:0:0:0/64', '2001:DB8::/64',
            # longer than /64 but with nothing of the network inside the interface identifier:
            # "combined" has only one meaning
            '2001:db8::/96', '2001:db8::/128', '2001:db8:0:1::/72', '2001:db8:0:1::/71',
            # network bits inside the identifier: exact whenever they do not collide with a set
            # bit of the identifier (colliding combinations are skipped, the statement does not
            # define them)
            '2001:db8:0:1:200::/72', '2001:db8:0:1:8000::/65', '2001:db8:0:1:400::/70',
            '2001:db8:0:1:100::/72', '2001:db8:0:1:0:ff00::/88']
OPEN_PREFIXES = ['2001:db8::ffff:0:0/112', '10.0.0.0/8',
                 '2001:db8::1', 'ffff:ffff:ffff:ffff:ffff:ffff:ffff:ffff',
                 'ffff:ffff:ffff:ffff:ffff::/80', 'ffff:ffff:ffff:ffff:fff0::/76',
                 'ffff:ffff:ffff:ffff:ffff:ffff:ffff:ffff/128']
BAD_PREFIXES = ['10', '10.0', '10.0.0', '10.0.0.1', '192.168.1.1', 'xyz', '2001:db8::/129',
                '2001:db8::/-1', 'g::/64', '2001:db8::/64/64']
BAD_MACS = ['', 'zz:zz:zz:zz:zz:zz', '00:11:22:33:44', '00:11:22:33:44:55:66:77:88', 'mac',
            '00:11:22:33:44:5g']


MASK_SPELLED = {'2001:db8::/ffff:ffff:ffff:ffff::': '2001:db8::/64', '::/ffff:ffff:ffff:ffff::': '::/64',
                '2001:db8:1:2::/ffff:ffff:ffff::': '2001:db8:1:2::/48',
                'fe80::1/ffff:ffff:ffff:ffff::': 'fe80::1/64'}


def expected_addr(prefix, m):
    net = ipaddress.ip_network(MASK_SPELLED.get(prefix, prefix), strict=False)
    b = [(m >> (8 * (5 - i))) & 0xff for i in range(6)]
    eui = [b[0] ^ 0x02, b[1], b[2], 0xff, 0xfe, b[3], b[4], b[5]]
    iid = int.from_bytes(bytes(eui), 'big')
    return ipaddress.IPv6Address(int(net.network_address) + iid)


def _eui_case(vals, acc):
    import netaddr
    from oslo_utils import netutils
    prefix, m, style = vals
    mac = mac_str(m, '-' if style == 'dash' else ':')
    if style == 'upper':
        mac = mac.upper()
    net_low = int(ipaddress.ip_network(MASK_SPELLED.get(prefix, prefix),
                                       strict=False).network_address) & ((1 << 64) - 1)
    if net_low & (int(expected_addr('::/64', m)) & ((1 << 64) - 1)):
        return                      # network and identifier collide: undefined by the statement
    acc.nontrivial('%s|%s' % (prefix, mac))
    try:
        got = netutils.get_ipv6_addr_by_EUI64(prefix, mac)
    except Exception as e:
        acc.fail('eui64-forward-raises', {'prefix': prefix, 'mac': mac, 'exception': type(e).__name__},
                 {'eui': [prefix, m, style]})
        return
    want = expected_addr(prefix, m)
    if int(got) != int(want) or got.version != 6:
        acc.fail('eui64-forward', {'prefix': prefix, 'mac': mac, 'got': str(got), 'want': str(want)},
                 {'eui': [prefix, m, style]})
        return
    if net_low:
        return          # the identifier carries network bits: the MAC is not recoverable from it
    try:
        back = netutils.get_mac_addr_by_ipv6(netaddr.IPAddress(str(got)))
        ok = int(back) == m and str(back) == mac_str(m)
    except Exception as e:
        back, ok = ('raises', type(e).__name__), False
    if not ok:
        acc.fail('eui64-inverse', {'address': str(got), 'mac': mac, 'got': str(back)},
                 {'eui': [prefix, m, style]})
        return
    # the EUI handed out belongs to the caller: changing it must not reach the next caller
    try:
        back.dialect = netaddr.mac_cisco
        back.value = (int(back) + 1) % (1 << 48)
        again = netutils.get_mac_addr_by_ipv6(netaddr.IPAddress(str(got)))
        ok = int(again) == m and str(again) == mac_str(m) and again is not back
    except Exception as e:
        again, ok = ('raises', type(e).__name__), False
    if not ok:
        acc.fail('eui64-inverse-result-shared-between-calls',
                 {'address': str(got), 'mac': mac, 'second_call': str(again)}, {'eui': [prefix, m, style]})


def _eui_bad(vals, acc):
    from oslo_utils import netutils
    prefix, mac, kind = vals
    acc.nontrivial(repr(vals))
    try:
        r = netutils.get_ipv6_addr_by_EUI64(prefix, mac)
        got = ('ret', str(r))
    except (ValueError, TypeError) as e:
        got = (type(e).__name__,)
    except Exception as e:
        got = ('raises', type(e).__name__)
    if kind == 'must-raise':
        if got[0] not in ('ValueError', 'TypeError'):
            acc.fail('eui64-bad-input-accepted', {'prefix': repr(prefix), 'mac': repr(mac),
                                                  'got': repr(got)}, {'eui_bad': [repr(prefix), repr(mac), kind]})
    elif kind == 'type-error':
        if got != ('TypeError',):
            acc.fail('eui64-nonstring-prefix', {'prefix': repr(prefix), 'got': repr(got)},
                     {'eui_bad': [repr(prefix), repr(mac), kind]})
    else:                              # open: only totality
        if got[0] == 'raises':
            acc.fail('eui64-unexpected-exception', {'prefix': repr(prefix), 'got': repr(got)},
                     {'eui_bad': [repr(prefix), repr(mac), kind]})


HOSTS = ['server01', 'a.example.org', 'localhost', '10.0.0.1', '255.255.255.255', '::1', '::',
         '2001:db8:85a3::8a2e:370:7334', '2001:0db8:0000:0000:0000:0000:0000:0001',
         'fe80::1%eth0', 'fe80::a:b:c:d%lo', '::ffff:10.0.0.1',
         # the longest spellings of the grammar: zero-padded groups, embedded dotted quad, scope
         '0000:0000:0000:0000:0000:ffff:10.10.10.1', 'ffff:ffff:ffff:ffff:ffff:ffff:255.255.255.255',
         'fe80:0000:0000:0000:0202:b3ff:fe1e:8329%enp3s0', 'fe80::1%eth0.100',
         'fe80:0000:0000:0000:0202:b3ff:fe1e:8329%tap0123456789ab', '0:0:0:0:0:0:0:1']
PORTS = [0, 1, 80, 443, 65535]
DEFAULTS = [None, 1234, 0, 65535]


def _hostport_case(vals, acc):
    from oslo_utils import netutils
    host, port, default = vals
    acc.nontrivial(repr(vals))
    esc = netutils.escape_ipv6(host)
    if (':' in host) != (esc == '[%s]' % host) or (':' not in host and esc != host):
        acc.fail('escape_ipv6', {'host': host, 'got': esc}, {'hp': [host, port, default]})
        return
    texts = [(esc + ':%d' % port, (host, port))] if port is not None else []
    texts.append((esc, (host, default)))
    if ':' in host:
        texts.append((host, (host, default)))       # unescaped IPv6 without a port
    for text, want in texts:
        try:
            got = netutils.parse_host_port(text, default_port=default)
            pos = netutils.parse_host_port(text, default)        # the documented parameter order
            if pos != got:
                got = ('positional-call-differs', pos, got)
        except Exception as e:
            got = ('raises', type(e).__name__)
        if got != want or (isinstance(got, tuple) and len(got) == 2 and got[1] is not None and
                           (type(got[1]) is not int)):
            acc.fail('parse_host_port', {'text': text, 'default_port': default, 'got': repr(got),
                                         'want': repr(want)}, {'hp': [host, port, default]})
            return


SCHEMES = ['', 'http', 'HTTPS', 'custom+x', 'svn+ssh']
NETLOCS = ['', 'host', 'user:pw@host:80', '[::1]:8080', 'h.example.org:0']
PATHS = ['', '/', '/a/b', 'a;p', '/x%20y', '/p;v=1/q']
QUERIES = ['', 'a=1', 'a=1&a=2&b=', 'a', 'a=1&b=2&a=3', 'tag=red&limit=10&tag=blue&tag=green',
           'x=%41&x=+', 'a=1;b=2']
FRAGS = ['', 'f', 'f?x', 'f#g']
# one decoded name under several raw spellings, in every order over three fields
ALIAS_NAMES = ['a', '%61', 'b', 'x+y', 'x%20y']
ALIAS_QUERIES = ['&'.join('%s=%d' % (n, i + 1) for i, n in enumerate(t))
                 for k in (2, 3) for t in itertools.product(ALIAS_NAMES, repeat=k)]


def build_url(scheme, netloc, path, query, frag):
    u = ''
    if scheme:
        u += scheme + ':'
    if netloc:
        u += '//' + netloc
    u += path
    if query:
        u += '?' + query
    if frag:
        u += '#' + frag
    return u


def _url_case(vals, acc):
    from oslo_utils import netutils
    scheme, netloc, path, query, frag, allow, default_scheme = vals
    if netloc and path and not path.startswith('/'):
        return
    url = build_url(scheme, netloc, path, query, frag)
    acc.nontrivial('%s|%s|%s' % (url, allow, default_scheme))
    want = parse.urlsplit(url, default_scheme, allow)
    try:
        got = netutils.urlsplit(url, default_scheme, allow)
    except Exception as e:
        acc.fail('urlsplit-raises', {'url': url, 'exception': type(e).__name__},
                 {'url': [url, allow, default_scheme]})
        return
    if tuple(got) != tuple(want) or got.geturl() != want.geturl() or \
            got.hostname != want.hostname or got.port != want.port or got.username != want.username:
        acc.fail('urlsplit', {'url': url, 'allow_fragments': allow, 'got': tuple(got),
                              'want': tuple(want)}, {'url': [url, allow, default_scheme]})
        return
    pairs = parse.parse_qsl(want.query)
    last = {}
    multi = {}
    for k, v in pairs:
        last[k] = v
        multi.setdefault(k, []).append(v)
    want_multi = {k: (v if len(v) > 1 else v[0]) for k, v in multi.items()}
    try:
        p1, p2, p3 = got.params(), got.params(collapse=False), got.params(True)
    except Exception as e:
        acc.fail('params-raises', {'url': url, 'exception': type(e).__name__},
                 {'url': [url, allow, default_scheme]})
        return
    if p1 != last or p3 != last or p2 != want_multi:
        acc.fail('params', {'url': url, 'collapse_true': p1, 'collapse_false': p2,
                            'want_last': last, 'want_all': want_multi},
                 {'url': [url, allow, default_scheme]})
        return
    if isinstance(p1, dict) and isinstance(p2, dict):
        # the dicts handed out belong to the caller: scribbling on them must not
        # change what the next call answers
        p1['scribbled'] = 'x'
        p2['scribbled'] = ['y']
        for v in p2.values():
            if isinstance(v, list):
                v.append('scribbled')
        try:
            q1, q2 = got.params(), got.params(collapse=False)
        except Exception as e:
            q1 = q2 = ('raises', type(e).__name__)
        if q1 != last or q2 != want_multi:
            acc.fail('params-shared-between-calls', {'url': url, 'second_call': [q1, q2]},
                     {'url': [url, allow, default_scheme]})
            return
        del p1['scribbled'], p2['scribbled']
        for v in p2.values():
            if isinstance(v, list):
                v.remove('scribbled')
    if p1 != last or p3 != last or p2 != want_multi:
        acc.fail('params', {'url': url, 'collapse_true': p1, 'collapse_false': p2,
                            'want_last': last, 'want_all': want_multi},
                 {'url': [url, allow, default_scheme]})


def run(ctx):
    rep = ctx.new_report()
    from vlib.ref import noise as _noise
    E.set_noise(_noise.netutils_noise())
    ms = macs(ctx.seed)
    E.run(rep, 'eui64', [PREFIXES + sorted(MASK_SPELLED), ms, ['colon', 'upper', 'dash']], _eui_case)
    bad = [(p, mac_str(ms[5]), 'must-raise') for p in BAD_PREFIXES]
    bad += [(PREFIXES[0], m, 'must-raise') for m in BAD_MACS]
    bad += [(p, mac_str(ms[5]), 'type-error') for p in (None, 5, b'2001:db8::/64', ['x'])]
    bad += [(p, mac_str(m), 'open') for p in OPEN_PREFIXES + [''] for m in ms[:6]]
    bad += [(PREFIXES[0], m, 'open') for m in (None, 5, '001122334455', '0011.2233.4455')]
    E.run(rep, 'eui64-bad', [bad], lambda vals, acc: _eui_bad(vals[0], acc))
    E.run(rep, 'host-port', [HOSTS, PORTS + [None], DEFAULTS], _hostport_case)
    E.run(rep, 'urlsplit', [SCHEMES, NETLOCS, PATHS, QUERIES, FRAGS, [True, False], ['', 'ftp']],
          _url_case)
    E.run(rep, 'urlsplit-aliases', [['http'], ['host', ''], ['/a'], ALIAS_QUERIES, ['', 'f'], [True],
                                    ['']], _url_case)
    from oslo_utils import netutils
    rep.count('evaluations')
    if netutils.parse_host_port(None) != (None, None) or netutils.parse_host_port('') != (None, None):
        rep.fail('parse_host_port-empty', {'got': repr(netutils.parse_host_port(None))},
                 {'hp_empty': True})
    rep.sample({'prefix': '2001:db8::1/64', 'mac': mac_str(ms[7]), 'want': str(expected_addr('2001:db8::1/64', ms[7]))})
    rep.sample({'parse_host_port': '[fe80::1%eth0]:0', 'want': ['fe80::1%eth0', 0]})
    rep.sample({'urlsplit': 'custom+x://user:pw@host:80/a/b?a=1&b=2&a=3#f?x', 'allow_fragments': False})
    rep.notes['rule'] = ('complete products per helper; every case distinct by its arguments; '
                         'non-trivial = an exact expected value exists (all but the "open" '
                         'totality cases)')
    rep.notes['bounds'] = {'macs': len(ms), 'prefixes': PREFIXES, 'hosts': HOSTS, 'ports': PORTS,
                           'default_ports': DEFAULTS, 'url_components': [len(SCHEMES), len(NETLOCS),
                                                                         len(PATHS), len(QUERIES), len(FRAGS)]}
    return rep


def replay(payload):
    acc = _Acc()
    import ast
    if 'eui' in payload:
        _eui_case(tuple(payload['eui']), acc)
    elif 'eui_bad' in payload:
        p, m, k = payload['eui_bad']
        _eui_bad((ast.literal_eval(p), ast.literal_eval(m), k), acc)
    elif 'hp' in payload:
        _hostport_case(tuple(payload['hp']), acc)
    elif 'url' in payload:
        from oslo_utils import netutils
        url, allow, ds = payload['url']
        want = parse.urlsplit(url, ds, allow)
        got = netutils.urlsplit(url, ds, allow)
        pairs = parse.parse_qsl(want.query)
        multi = {}
        for k, v in pairs:
            multi.setdefault(k, []).append(v)
        wm = {k: (v if len(v) > 1 else v[0]) for k, v in multi.items()}
        bad = tuple(got) != tuple(want) or got.params() != dict(pairs) or got.params(collapse=False) != wm
        return {'violates': bool(bad), 'got': tuple(got), 'params_all': got.params(collapse=False)}
    else:
        return {'violates': True}
    return {'violates': bool(acc.fails), 'problems': acc.fails}


class _Acc:
    def __init__(self):
        self.fails = []

    def fail(self, cls, summary, payload, sigs=()):
        self.fails.append({'class': cls, 'summary': summary})

    def count(self, *a):
        pass

    def nontrivial(self, *a):
        pass
