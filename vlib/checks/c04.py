"""C04 - mask_password hides every supported secret and changes nothing else.

Engine C: the whole product keys x letter-case forms x renderings x secrets
(per-rendering alphabet) x contexts x masks. Oracle: the *same template*
rendered with the mask instead of the secret (EXACT) - which subsumes "the
secret does not occur" and "every other character stays"; idempotence; identity
on messages without a key; the key list is a pinned copy.
"""
from vlib.mc import enum as E

PROPERTY = 'C04'
LEVEL = 'model_checking'
ENGINE = 'C'
TECHNIQUE = ('stateless bounded model checking: complete enumeration of the product keys x case forms x '
             'renderings x per-rendering secret alphabet x contexts x masks '
             'against a template reference')
LEVEL_TEXT = ('Every one of the 35 keys in four letter-case/suffix forms, in '
              'every supported rendering, with every secret the rendering can '
              'carry built from the per-rendering alphabet (each printable '
              'character alone and inside a carrier, runs up to 40, non-ASCII, '
              'regex metacharacters), in neutral contexts and with a second '
              'secret, is masked and compared character-for-character with '
              'the same template carrying the mask; the complete product is '
              'run, not a sample.')
LEVEL_NOTE = ('Secrets are built from single characters inside a fixed carrier '
              'and runs, not arbitrary strings; the per-rendering alphabets '
              'exclude characters the rendering cannot carry (DESIGN.md sec. '
              '8). The key list is a pinned copy of the 35 keys.')

KEYS = ['adminpass', 'admin_pass', 'password', 'admin_password',
        'auth_token', 'new_pass', 'auth_password', 'secret_uuid',
        'secret', 'sys_pswd', 'token', 'configdrive',
        'chappassword', 'encrypted_key', 'private_key',
        'fernetkey', 'sslkey', 'passphrase',
        'cephclusterfsid', 'octaviaheartbeatkey', 'rabbitcookie',
        'cephmanilaclientkey', 'pacemakerremoteauthkey',
        'designaterndckey', 'cephadminkey', 'heatauthencryptionkey',
        'cephclientkey', 'keystonecredential',
        'barbicansimplecryptokek', 'cephrgwkey', 'swifthashsuffix',
        'migrationsshkey', 'cephmdskey', 'cephmonkey', 'chapsecret']

FORMS = ['lower', 'UPPER', 'Capitalised', 'digit']

# rendering name -> (template, family). %(k)s key, %(v)s value
RENDERINGS = [
    ('k=v', '%(k)s=%(v)s', 'bare'),
    ('k = v', '%(k)s = %(v)s', 'bare'),
    ('k="v"', '%(k)s="%(v)s"', 'dq'),
    ("k = 'v'", "%(k)s = '%(v)s'", 'sq'),
    ("'k': 'v'", "'%(k)s': '%(v)s'", 'dict'),
    ('"k":"v"', '"%(k)s":"%(v)s"', 'dict'),
    ("u'k': u'v'", "u'%(k)s': u'%(v)s'", 'dict'),
    ("'prefix_k' : 'v'", "'original_%(k)s' : '%(v)s'", 'dict'),
    ('<k>v</k>', '<%(k)s>%(v)s</%(k)s>', 'xml'),
    ('--k v', '--%(k)s %(v)s', 'dashdash'),
    ("k 'v'", "%(k)s '%(v)s'", 'q1'),
    ("'k', '--flag', 'v'", "'%(k)s', '--flag', '%(v)s'", 'dict3'),
    ('k --flag v', '%(k)s --flag %(v)s', 'nonspace'),
    ('k -f v', '%(k)s -f %(v)s', 'nonspace'),
    # flag names as they occur: with an underscore, upper case, a single letter pair
    ('k --new_value v', '%(k)s --new_value %(v)s', 'nonspace'),
    ('k -n_v v', '%(k)s -n_v %(v)s', 'nonspace'),
    ("'k', '--new_value', 'v'", "'%(k)s', '--new_value', '%(v)s'", 'dict3'),
    ('k --Flag_X v', '%(k)s --Flag_X %(v)s', 'nonspace'),
]

ASCII = [chr(c) for c in range(33, 127)]
NONASCII = ['é', 'ß', 'ж', 'λ', '中']


def alphabet(family):
    a = [c for c in ASCII if c not in '\'"'] + NONASCII
    if family == 'bare' or family == 'nonspace':
        return a
    if family == 'dashdash':
        return [c for c in a if c != '=']
    if family == 'dq':            # k="v": spaces and the other quote
        return a + [' ', "'"]
    if family == 'sq':
        return a + [' ', '"']
    if family in ('dict', 'dict3', 'q1'):   # neither quote kind can be carried
        return a + [' ']
    if family == 'xml':
        return [c for c in a if c != '<'] + [' ', "'", '"']
    raise ValueError(family)


def secrets_for(family, full):
    """Every character of the alphabet alone, at the start, in the middle and
    at the end of a 3-letter carrier; runs of length 2, 3 and 40."""
    out = []
    for ch in alphabet(family):
        if ch == ' ':
            out += ['Z q9', 'Zq  9']
            continue
        out += [ch, ch + 'Zq9', 'Zq' + ch + '9', 'Zq9' + ch]
        if full:
            out += [ch * 2, ch * 3, ch * 40]
    out += ['Zq9', 'Z' * 40, 'aB3' * 13 + 'x']
    if not full:
        out += ['**', '$$$', '.' * 40, '\\\\', '((', '[[[', '+' * 40]
    return out


CONTEXTS = [
    ('', ''),
    ('user=admin ', ' done'),
    ('', '\n'),
    ('DEBUG [req-1] body: ', ' status: 200'),
]
QUOTE_CONTEXTS = [          # a quote after the secret (F4 for dict renderings)
    ('', ' , \'other\': \'value\''),
    ('', ' "x"'),
    ('', ' and \'a\' "b" \'c\''),
]
SECOND = [                   # a second secret under a different key
    ('token', '--%(k)s %(v)s'), ('sys_pswd', '%(k)s=%(v)s'), ('fernetkey', '<%(k)s>%(v)s</%(k)s>'),
]
MASKS = ['***', '???', 'MASKED']


def key_form(key, form):
    if form == 'lower':
        return key
    if form == 'UPPER':
        return key.upper()
    if form == 'Capitalised':
        return key.capitalize()
    return key + '2'


def f4_signature(family, suffix_after_value):
    """Recorded finding F4: dict/JSON-style secret followed later by a quote."""
    return family == 'dict' and ("'" in suffix_after_value or '"' in suffix_after_value)


def f4_expected(expected):
    """What the wildcard pattern does on an F4 message: the text between the
    last two quote characters, and the last quote, are deleted."""
    idx = [i for i, c in enumerate(expected) if c in '\'"']
    if len(idx) < 2:
        return expected
    return expected[:idx[-2] + 1]


_RECENT = []       # the last calls made by this worker: replayed before a failing call


def _remember(msg, mask):
    _RECENT.append([msg, mask])
    del _RECENT[:-3]


def _case(vals, acc):
    from oslo_utils import strutils
    key, form, ri, secret, ci, mask, second = vals
    name, tmpl, family = RENDERINGS[ri]
    k = key_form(key, form)
    pre, suf = ci
    body_m = tmpl % {'k': k, 'v': secret}
    body_e = tmpl % {'k': k, 'v': mask}
    tail_m = tail_e = ''
    if second is not None:
        k2, t2 = second
        if k2 in key or key in k2:
            k2 = 'rabbitcookie' if 'rabbitcookie' != key else 'sslkey'
        tail_m = ' ' + t2 % {'k': k2, 'v': 'S3c0nd'}
        tail_e = ' ' + t2 % {'k': k2, 'v': mask}
    msg = pre + body_m + tail_m + suf
    exp = pre + body_e + tail_e + suf
    if secret == mask:
        return
    priors = [list(p) for p in _RECENT]
    try:
        got = strutils.mask_password(msg, mask)
    except Exception as e:
        acc.fail('raises:%s' % family, {'message': msg, 'exception': type(e).__name__},
                 {'message': msg, 'mask': mask, 'expected': exp})
        return
    _remember(msg, mask)
    acc.nontrivial(msg + '\0' + mask)
    sig = f4_signature(family, tail_m + suf)
    if got != exp:
        # On F4 inputs the rest of the property is still demanded: everything
        # up to and including the masked value is exact, the secret is gone,
        # and the result is the expected text with only 'text between the last
        # two quotes + last quote' removed (once per matching key).
        f4ok = False
        if sig and got.startswith(pre + body_e):
            e = exp
            for _ in range(4):
                e = f4_expected(e)
                if len(e) < len(pre + body_e):
                    break
                if got == e:
                    f4ok = True
                    break
        if f4ok:
            acc.fail('F4', {'message': msg, 'got': got, 'expected': exp},
                     {'message': msg, 'mask': mask, 'expected': exp},
                     sigs=['F4-wildcard-eats-tail'])
        else:
            acc.fail('exact:%s:%s' % (family, 'leak' if secret in got and secret not in exp else 'damage'),
                     {'message': msg, 'mask': mask, 'got': got, 'expected': exp, 'rendering': name},
                     {'message': msg, 'mask': mask, 'expected': exp, 'priors': priors})
        return
    acc.count('exact_matches')
    try:
        again = strutils.mask_password(got, mask)
    except Exception as e:
        again = ('raises', type(e).__name__)
    if again != got:
        acc.fail('idempotence:%s' % family, {'message': msg, 'once': got, 'twice': again},
                 {'message': msg, 'mask': mask, 'expected': exp, 'idempotence': True})


def _pair(vals, acc):
    from oslo_utils import strutils
    (k1, k2), (r1, r2) = vals
    t1, f1 = RENDERINGS[r1][1], RENDERINGS[r1][2]
    t2, f2 = RENDERINGS[r2][1], RENDERINGS[r2][2]
    msg = t1 % {'k': k1, 'v': 'F1rst'} + ' then ' + t2 % {'k': k2, 'v': 'S3c0nd'}
    exp = t1 % {'k': k1, 'v': '***'} + ' then ' + t2 % {'k': k2, 'v': '***'}
    got = strutils.mask_password(msg)
    acc.nontrivial('pair' + msg)
    if got != exp:
        sig = f4_signature(f1, t2)
        acc.fail('pair:%s' % ('leak' if ('F1rst' in got or 'S3c0nd' in got) else 'damage'),
                 {'message': msg, 'got': got, 'expected': exp},
                 {'message': msg, 'mask': '***', 'expected': exp},
                 sigs=['F4-wildcard-eats-tail'] if sig and 'F1rst' not in got and 'S3c0nd' not in got else [])


EMBED_RENDERINGS = [0, 3, 4]          # k=v, k = 'v', 'k': 'v': patterns that are not anchored before the key


def _embedded_case(vals, acc):
    """A key directly preceded by the beginning of another key (new_ + password,
    admin + password, ...): still a key."""
    from oslo_utils import strutils
    key, prefix, ri = vals
    name, tmpl, family = RENDERINGS[ri]
    k = prefix + key
    msg = 'set ' + tmpl % {'k': k, 'v': 'Zq9'} + ' ok'
    exp = 'set ' + tmpl % {'k': k, 'v': '***'} + ' ok'
    got = strutils.mask_password(msg)
    acc.nontrivial('emb' + msg)
    if got != exp:
        acc.fail('embedded-key:%s' % ('leak' if 'Zq9' in got else 'damage'),
                 {'message': msg, 'got': got, 'expected': exp},
                 {'message': msg, 'mask': '***', 'expected': exp})


QUOTED_NAME_RENDERINGS = [4, 5, 6, 11]     # the key is the tail of a quoted name
QUOTED_NAME_PREFIXES = ['Admin ', 'my new ', 'the db ', 'X-Auth-', 'os.', 'a b c ', '\t', 'caf\u00e9 ',
                        '(old) ', 'a/b:', '100% ']
URLISH_SECRETS = ['Xy&z=1!', 'a?b=c&d=e', 'a&b=c', 'q?r=s', 'k=v', 'x;y=z', 'a,b=c', 'p&amp;q=r',
                  'u://h/p?a=1&b=2']
URLISH_CONTEXTS = [('GET /v3/users?limit=10 -> 401; retry with ', ' next'), ('', ' ?b=c'),
                   ('http://h/p?a=1&b=2 ', ''), ('see /x?page=2&size=5 then ', ' and /y?z=1')]


def _quoted_name_case(vals, acc):
    """A key that is the tail of a longer quoted name whose first part contains blanks
    or punctuation ('Admin Password', 'X-Auth-Token'): still a key."""
    from oslo_utils import strutils
    key, form, prefix, ri = vals
    name, tmpl, family = RENDERINGS[ri]
    k = prefix + key_form(key, form)
    msg = 'body {' + tmpl % {'k': k, 'v': 'Zq9'} + '}'
    exp = 'body {' + tmpl % {'k': k, 'v': '***'} + '}'
    got = strutils.mask_password(msg)
    acc.nontrivial('qn' + msg)
    if got != exp:
        acc.fail('quoted-name-prefix:%s' % ('leak' if 'Zq9' in got else 'damage'),
                 {'message': msg, 'got': got, 'expected': exp},
                 {'message': msg, 'mask': '***', 'expected': exp})


def _repeat_case(vals, acc):
    """The same key several times in one message, each with its own secret: all of them."""
    from oslo_utils import strutils
    key, ri, n, mask = vals
    name, tmpl, family = RENDERINGS[ri]
    sep = ' ' if family not in ('dict', 'dict3') else ' ; '
    if family in ('dict', 'dict3'):
        return            # a quote after a dict-style secret is F4 territory
    msg = 'x ' + sep.join(tmpl % {'k': key, 'v': 'Zq%d9' % i} for i in range(n)) + ' y'
    exp = 'x ' + sep.join(tmpl % {'k': key, 'v': mask} for i in range(n)) + ' y'
    got = strutils.mask_password(msg, mask)
    acc.nontrivial('rep' + msg)
    if got != exp:
        acc.fail('repeated-key:%s' % ('leak' if 'Zq' in got else 'damage'),
                 {'message': msg, 'got': got, 'expected': exp}, {'message': msg, 'mask': mask, 'expected': exp})


def _long_case(vals, acc):
    """Long messages: the secret sits around a power-of-two offset."""
    from oslo_utils import strutils
    ri, base, delta, filler_kind = vals
    name, tmpl, family = RENDERINGS[ri]
    body_m = tmpl % {'k': 'password', 'v': 'hunter2Zq'}
    body_e = tmpl % {'k': 'password', 'v': '***'}
    n = base + delta - len(body_m) // 2
    if n < 0:
        return
    unit = 'x' if filler_kind == 'solid' else 'lorem ipsum '
    pre = (unit * (n // len(unit) + 1))[:n].rstrip() + ' '
    suf = ' tail'
    msg, exp = pre + body_m + suf, pre + body_e + suf
    got = strutils.mask_password(msg)
    acc.nontrivial('long%r' % ((ri, base, delta, filler_kind),))
    if got != exp:
        at = next((i for i, (a, b) in enumerate(zip(got, exp)) if a != b), min(len(got), len(exp)))
        acc.fail('long-message:%s' % ('leak' if 'hunter2Zq' in got else 'damage'),
                 {'rendering': name, 'message_length': len(msg), 'secret_at': len(pre),
                  'first_difference_at': at, 'got_around': got[max(0, at - 30):at + 40]},
                 {'long': [ri, base, delta, filler_kind]})


def _mask_sequence(vals, acc):
    """The same message masked with different masks, one call after the other:
    each answer carries the mask of *its* call."""
    from oslo_utils import strutils
    (key, ri), masks = vals
    name, tmpl, family = RENDERINGS[ri]
    msg = 'a ' + tmpl % {'k': key, 'v': 'Zq9x'} + ' z'
    acc.nontrivial('seq' + msg + repr(masks))
    for i, m in enumerate(masks):
        exp = 'a ' + tmpl % {'k': key, 'v': m} + ' z'
        got = strutils.mask_password(msg, m) if m != '***' or i else strutils.mask_password(msg)
        if got != exp:
            acc.fail('mask-sequence', {'message': msg, 'masks_in_call_order': list(masks),
                                       'call': i, 'got': got, 'expected': exp},
                     {'sequence': [msg, list(masks), tmpl, key]})
            return


class LazyMessage(str):
    """A lazily rendered message (like a lazily translated one): a str subclass
    whose text only appears when it is converted with str()."""
    def __new__(cls, template, **kw):
        self = super().__new__(cls, template)
        self.kw = kw
        return self

    def __str__(self):
        return str.__str__(self) % self.kw


class Obj:
    def __init__(self, text):
        self.text = text

    def __str__(self):
        return self.text


def _object_case(vals, acc):
    """mask_password(obj) masks str(obj): objects, exceptions, str subclasses."""
    from oslo_utils import strutils
    (key, ri), kind = vals
    name, tmpl, family = RENDERINGS[ri]
    text = 'call failed: ' + tmpl % {'k': key, 'v': 'Zq9x'} + ' (retrying)'
    exp = 'call failed: ' + tmpl % {'k': key, 'v': '***'} + ' (retrying)'
    if kind == 'lazy-str-subclass':
        arg = LazyMessage('call failed: %(detail)s (retrying)', detail=tmpl % {'k': key, 'v': 'Zq9x'})
    elif kind == 'object':
        arg = Obj(text)
    elif kind == 'exception':
        arg = ValueError(text)
    else:
        arg = str(text)
    acc.nontrivial('obj' + kind + text)
    try:
        got = strutils.mask_password(arg)
    except Exception as e:
        got = 'raises ' + type(e).__name__
    if got != exp or type(got) is not str and not isinstance(got, str):
        acc.fail('non-str-message:%s' % kind, {'argument_kind': kind, 'str_of_argument': text,
                                               'got': str(got), 'expected': exp},
                 {'object_case': [key, ri, kind]})


UNICODE_BLANKS = ['\xa0', '\u2003', '\u3000']


def _unicode_case(vals, acc):
    """Letter case and blanks are Unicode notions: the Kelvin sign lower-cases to
    'k', a no-break / em / ideographic space is white space."""
    from oslo_utils import strutils
    key, ri, variant = vals
    name, tmpl, family = RENDERINGS[ri]
    k = key
    t = tmpl
    if variant == 'kelvin':
        if 'k' not in key:
            return
        k = key.replace('k', '\u212a', 1)
    else:
        if ' ' not in tmpl:
            return
        t = tmpl.replace(' ', variant)
    msg = 'a ' + t % {'k': k, 'v': 'Zq9x'} + ' z'
    exp = 'a ' + t % {'k': k, 'v': '***'} + ' z'
    acc.nontrivial('uni' + msg)
    got = strutils.mask_password(msg)
    if got != exp:
        acc.fail('unicode:%s' % ('kelvin' if variant == 'kelvin' else 'blank'),
                 {'message': msg, 'got': got, 'expected': exp},
                 {'message': msg, 'mask': '***', 'expected': exp})


def _nokey(vals, acc):
    from oslo_utils import strutils
    msg, mask = vals
    got = strutils.mask_password(msg, mask)
    acc.nontrivial('nokey' + msg)
    if got != msg:
        acc.fail('nokey-changed', {'message': msg, 'got': got},
                 {'message': msg, 'mask': mask, 'expected': msg})


def run(ctx):
    rep = ctx.new_report()
    from vlib.ref import noise as _noise
    E.set_noise(_noise.strutils_noise())
    full = ctx.thorough
    # three representative keys get the whole secret alphabet in the quick tier
    # (one of them a substring of other keys); the seed only rotates which ones
    pick = ctx.seed % 5
    rep_keys = ['password', KEYS[3 + pick], KEYS[20 + pick]] if not full else KEYS
    rlist = list(range(len(RENDERINGS)))
    # product 1: all keys x forms x renderings x 2 secrets x contexts x 1 mask
    E.run(rep, 'all-keys', [KEYS, FORMS, rlist, ['Zq9', 'p@$$w0rd!#%&*(){}[]|;:,.<>?/~`-_+=\\']
                            if False else ['Zq9', 'p@ss-w0rd_1.x'],
                            CONTEXTS, ['***'], [None]], _case)
    # product 2: representative keys x renderings x whole per-rendering alphabet
    for ri, (name, tmpl, family) in enumerate(RENDERINGS):
        E.run(rep, 'alphabet:' + name,
              [rep_keys, ['lower', 'UPPER'] if not full else FORMS, [ri],
               secrets_for(family, full), CONTEXTS[:2], MASKS, [None]], _case)
    # product 3: a second secret under another key (non-dict renderings)
    E.run(rep, 'second-secret',
          [KEYS if full else KEYS[::3], ['lower', 'digit'], rlist, ['Zq9', 'x;y:z'],
           CONTEXTS[:2], ['***'], SECOND], _case)
    # product 3b: every ordered pair of keys in one message (nested keys such as
    # token / auth_token included)
    E.run(rep, 'key-pairs', [[(a, b) for a in KEYS for b in KEYS if a != b],
                             [(0, 0), (8, 9), (2, 1), (9, 3)] if not full else
                             [(i, j) for i in range(len(RENDERINGS)) for j in (0, 3, 8, 9)]],
          _pair)
    # product 3c: a key glued behind every proper prefix of every key
    prefixes = sorted({k[:i] for k in KEYS for i in range(1, len(k) + 1)})
    E.run(rep, 'embedded-keys', [KEYS, prefixes, EMBED_RENDERINGS], _embedded_case)
    E.run(rep, 'quoted-name-prefixes', [KEYS, ['lower', 'Capitalised'], QUOTED_NAME_PREFIXES,
                                        QUOTED_NAME_RENDERINGS], _quoted_name_case)
    # product 3c': unquoted secrets that look like pieces of a URL / query string, in messages
    # that also mention URLs: the value still runs to the next blank
    E.run(rep, 'urlish-secrets', [KEYS if full else rep_keys + KEYS[::7], ['lower'], [0, 1, 12, 13],
                                  URLISH_SECRETS, URLISH_CONTEXTS, ['***'], [None]], _case)
    # ('--key value' cannot carry '=' in the value: sec. 8)
    E.run(rep, 'urlish-secrets-dashdash', [KEYS if full else rep_keys + KEYS[::7], ['lower'], [9],
                                           [x for x in URLISH_SECRETS if '=' not in x] + ['Xy&z', 'a?b', 'a&b'],
                                           URLISH_CONTEXTS, ['***'], [None]], _case)
    E.run(rep, 'repeated-key', [KEYS, rlist, [2, 3, 4, 7], ['***']], _repeat_case)
    # product 3d: long messages, the secret around 2^12, 2^13, 2^16 (and 2^20)
    deltas = list(range(-24, 25))
    E.run(rep, 'long-messages', [[0, 2, 3, 5, 9, 12], [4096, 8192, 65536], deltas,
                                 ['solid', 'words']], _long_case)
    E.run(rep, 'very-long-messages', [[0, 9], [1 << 20], [-9, -1, 0, 1, 9] if not full else deltas,
                                      ['words']], _long_case)
    # product 3e: call sequences on one message with different masks
    import itertools as _it
    E.run(rep, 'mask-sequences', [[(k, r) for k in rep_keys[:2] for r in rlist],
                                  [p for p in _it.permutations(MASKS + ['#'], 3)]],
          _mask_sequence)
    # product 3f: messages that are not plain str objects
    E.run(rep, 'non-str-messages', [[(k, r) for k in rep_keys for r in rlist],
                                    ['lazy-str-subclass', 'object', 'exception', 'plain']], _object_case)
    # product 3g: Unicode letter case / white space
    E.run(rep, 'unicode-case-and-blanks', [[k for k in KEYS if 'k' in k][:6] + ['password'],
                                           [0, 1, 3, 4, 9, 10, 12], ['kelvin'] + UNICODE_BLANKS],
          _unicode_case)
    # product 4: a quote after the secret (known finding F4 on dict renderings)
    E.run(rep, 'quote-after',
          [rep_keys, ['lower'], rlist, ['Zq9'], QUOTE_CONTEXTS, ['***'], [None]], _case)
    # product 5: messages without any key are returned unchanged
    words = ['', 'hello world', 'user=admin', "{'a': 'b', \"c\": \"d\"}", '<a>b</a>',
             '--flag value', 'pass word', 'tok en=1', 'pa$$word=1', 'passwd=abc',
             'x' * 1000, 'café=1', "it's \"quoted\"", 'key = \'v\'', 'secre t', 'S E C R E T',
             'p\nassword=1']
    E.run(rep, 'no-key', [[(w, m) for w in words for m in MASKS]],
          lambda vals, acc: _nokey(vals[0], acc))
    # the pinned key list itself
    from oslo_utils import strutils
    rep.count('evaluations')
    if sorted(strutils._SANITIZE_KEYS) != sorted(KEYS):
        missing = sorted(set(KEYS) - set(strutils._SANITIZE_KEYS))
        if missing:
            rep.fail('key-list', {'missing_keys': missing}, {'keylist': True})
    rep.sample({'message': "password='Zq$9' done", 'mask': '***', 'expected': "password='***' done"})
    rep.sample({'message': '<ADMINPASS>Zq9&</ADMINPASS>', 'mask': '???',
                'expected': '<ADMINPASS>???</ADMINPASS>'})
    rep.notes['rule'] = (
        'union of complete products (printed under bounds); one case = one '
        'message built from (key, case form, rendering, secret, context, mask, '
        'optional second secret). Non-trivial = the message contains the '
        'secret and the mask differs from it; counted per distinct (message, mask).')
    rep.notes['bounds'] = {
        'keys': len(KEYS), 'forms': FORMS, 'renderings': [r[0] for r in RENDERINGS],
        'alphabet_keys': rep_keys if not full else 'all 35',
        'secret_shapes': 'each alphabet character alone / start / middle / end of carrier Zq9'
                         + (', runs 2, 3, 40' if full else '') + ', long and metacharacter runs',
        'contexts': len(CONTEXTS), 'masks': MASKS}
    rep.notes['assumptions'] = ['per-rendering alphabets (DESIGN.md sec. 8)']
    return rep


def replay(payload):
    from oslo_utils import strutils
    if payload.get('keylist'):
        missing = sorted(set(KEYS) - set(strutils._SANITIZE_KEYS))
        return {'violates': bool(missing), 'missing': missing}
    if 'long' in payload:
        acc = _Acc()
        _long_case(tuple(payload['long']), acc)
        return {'violates': bool(acc.fails), 'problems': acc.fails}
    if 'object_case' in payload:
        acc = _Acc()
        k, ri, kind = payload['object_case']
        _object_case(((k, ri), kind), acc)
        return {'violates': bool(acc.fails), 'problems': acc.fails}
    if 'sequence' in payload:
        msg, masks, tmpl, key = payload['sequence']
        outs = [strutils.mask_password(msg, m) for m in masks]
        exps = ['a ' + tmpl % {'k': key, 'v': m} + ' z' for m in masks]
        return {'violates': outs != exps, 'got': outs, 'expected': exps}
    for pm, pk in payload.get('priors') or []:
        strutils.mask_password(pm, pk)       # the calls that preceded it in the worker
    got = strutils.mask_password(payload['message'], payload['mask'])
    if payload.get('idempotence'):
        again = strutils.mask_password(got, payload['mask'])
        return {'violates': again != got, 'once': got, 'twice': again}
    return {'violates': got != payload['expected'], 'got': got, 'expected': payload['expected']}


class _Acc:
    def __init__(self):
        self.fails = []

    def fail(self, cls, summary, payload, sigs=()):
        self.fails.append({'class': cls, 'summary': summary})

    def count(self, *a):
        pass

    def nontrivial(self, *a):
        pass
