"""C05 - inspector memory is bounded by a constant, whatever the stream claims.

Engine A, invariant I2 in every reachable state: the number of bytes each
inspector retains (sum of context_info) is <= 1.5 MiB for VMDK and <= 512 KiB
for every other format, over valid images, images whose length / count / offset
fields are set to boundary and maximal values, 2 MiB text and seeded streams,
under every chunking over the cut candidates (the single giant chunk is the
edge 0 -> L).
"""
import time

from vlib import par
from vlib.checks.c01 import pack, unpack
from vlib.img import build as B
from vlib.img import family as F

PROPERTY = 'C05'
LEVEL = 'model_checking'
ENGINE = 'A'
TECHNIQUE = ('explicit-state exploration of the real inspectors over all '
             'chunkings of hostile-field streams; retention bound evaluated in '
             'every reachable state')
LEVEL_TEXT = ('Every stream of the family (hostile length / count / offset fields and '
'relations between them for VMDK, VHDX, qcow2, GPT, ISO; runs of repeated '
'structures; 2 MiB text and seeded streams; valid images) is presented to every '
'inspector class (and to the wrapper) under all subsets of the cut candidates, '
'including one giant chunk and chunks that end just after a structure '
'announcing a large length; the retained byte count is evaluated in every '
'distinct state, not only at the end.')
LEVEL_NOTE = ('Streams are bounded to ~3 MiB and to the enumerated field '
              'values; transient memory inside one eat_chunk call is not '
              'visible through context_info and is not measured.')

BOUND = {'vmdk': 3 * 512 * 1024}
DEFAULT_BOUND = 512 * 1024
ALL = ['raw', 'qcow2', 'vhd', 'vhdx', 'vmdk', 'vdi', 'qed', 'iso', 'gpt', 'luks']
_IMAGES = []
BIG = 2 * 1024 * 1024


def family(ctx):
    seed, full = ctx.seed, ctx.thorough
    out = []

    def add(im, tag, extra_bounds=()):
        im.name = '%s[%s]' % (im.fmt, tag)
        im.bounds = sorted(set(im.bounds) | set(extra_bounds))
        out.append(im)

    body = B.filler(seed, BIG, 9)
    text = (b'ddb.comment = "' + b'x' * 100 + b'"\n') * (BIG // 117 + 1)
    # VMDK: descriptor sector counts
    for n in (0, 1, 2047, 2048, 2049, 1 << 32, (1 << 64) - 1):
        for kind in ('bin', 'text'):
            desc = B.vmdk_descriptor()
            hdr = B.vmdk_header(desc_num=n & ((1 << 64) - 1), desc_sec=1)
            fillb = body if kind == 'bin' else text[:BIG]
            data = hdr + desc + fillb[:BIG - len(desc)]
            add(B.Image('vmdk', data, bounds=[64, 512, 1024, 512 + (1 << 20) - 1,
                                              512 + (1 << 20), len(data) - 1536]),
                'desc_num=%d body=%s' % (n, kind))
    # VMDK with GD_AT_END (footer region on top of a maximal descriptor)
    hdr = B.vmdk_header(desc_num=4096, desc_sec=1, gd_offset=B.GD_AT_END)
    add(B.Image('vmdk', hdr + text[:BIG], bounds=[64, 512, 512 + (1 << 20) - 1, BIG - 1024]),
        'desc_num=4096 gd_at_end text body')
    # VMDK text mode: 2 MiB of text (the descriptor region at 0 grabs a chunk)
    add(B.Image('vmdk', text[:BIG], bounds=[4, 64, 512, (1 << 20) - 1, 1 << 20]), 'pure text 2MiB')
    add(B.Image('vmdk', b'createType="monolithicSparse"\n' + text[:BIG],
                bounds=[4, 64, 512, (1 << 20) - 1, 1 << 20]), 'text with createType 2MiB')
    add(B.Image('raw', body, bounds=[64, 512, 1 << 20]), 'seeded 2MiB')
    add(B.Image('raw', bytes(BIG), bounds=[64, 512, 1 << 20]), 'zeros 2MiB')
    # VHDX hostile fields
    for rc in (0, 1, 2046, 2047, 2048, 65535, 0xffffffff):
        add(B.vhdx(region_count=rc, pad_regions_before=3, tail=70000 if rc < 2048 else 700000), 'region_count=%d' % rc)
    for mc in (0, 1, 2046, 2047, 2048, 65535):
        add(B.vhdx(meta_count=mc, pad_items_before=3, tail=140000 if mc < 2048 else 2300000), 'meta_count=%d' % mc)
    for il in (0, 8, 65535, 65536, 65537, (1 << 32) - 1):
        add(B.vhdx(item_length=il, tail=700000, meta_len_field=0xffffffff), 'item_length=%d' % il)
    # the region-table *length* field of the metadata region (unused today)
    for ml in (0, 1, 4096, 65535, 65536, 65537):
        add(B.vhdx(meta_len_field=ml, tail=700000), 'meta_length_field=%d' % ml)
        add(B.vhdx(meta_len_field=ml, item_length=(1 << 32) - 1, tail=700000),
            'meta_length_field=%d max item' % ml)
    add(B.vhdx(pad_items_before=2046, pad_items_after=0, item_length=(1 << 32) - 1, tail=700000),
        'full table + max item')
    add(B.vhdx(with_vds_entry=False, meta_len_field=0xffffffff, tail=700000), 'no vds entry, max meta length')
    add(B.vhdx(meta_count=2047, with_vds_entry=False, meta_len_field=0xffffffff, tail=700000),
        'meta_count 2047, no vds entry, max meta length')
    add(B.vhdx(pad_regions_before=2046, pad_regions_after=0, meta_offset=(1 << 20), tail=140000,
               item_length=70000), 'full region table')
    # the item offset in relation to the metadata length declared in the region table: inside,
    # at the end, just beyond, far beyond (but inside the stream); small and maximal item lengths
    for ml in (0, 65536, 1 << 20):
        for io in (65536 + 32, 131072, (1 << 20) - 8, (1 << 20) + 4096):
            for il in (8, (1 << 32) - 1):
                add(B.vhdx(meta_len_field=ml, item_offset=io, item_length=il, tail=1200000),
                    'meta_length_field=%d item_offset=%d item_length=%d' % (ml, io, il))
    # the (so far meaningless) flag word of the virtual-disk-size entry, with a hostile length
    for fl in (1, 2, 4, 7, 0xffffffff):
        for il in (8, 1 << 20, (1 << 32) - 1):
            add(B.vhdx(vds_flags=fl, item_length=il, tail=1300000),
                'vds_flags=%#x item_length=%d' % (fl, il))
    # ISO: a long run of volume descriptors of one type (each looks like a header)
    for dtype in (0, 2, 3, 255, 1):
        for nsec in (300, 700):
            d = bytearray(32768 + 2048 * (nsec + 2))
            for k in range(nsec):
                o = 32768 + 2048 * k
                d[o] = dtype
                d[o + 1:o + 6] = b'CD001'
                d[o + 6] = 1
            o = 32768 + 2048 * nsec
            d[o:o + 7] = b'\x01CD001\x01'
            d[o + 2048:o + 2048 + 7] = b'\xffCD001\x01'
            add(B.Image('iso', bytes(d), bounds=[32768, 32768 + 2048, 32768 + 4096, o, o + 2048]),
                'run of %d type-%d descriptors' % (nsec, dtype))
    # GPT: protective MBR + primary header whose entry count / entry size / entry LBA are hostile
    for cnt, esz in ((128, 128), (128, 4096), (128, 16384), (1, 1 << 21), (4, 1 << 19),
                     ((1 << 32) - 1, (1 << 32) - 1), (0, 0), (129, 128)):
        for lba in (2, 3):
            add(B.gpt_disk(entries=cnt, entry_size=esz, entry_lba=lba, length=2300000),
                'gpt header entries=%d size=%d lba=%d' % (cnt, esz, lba))
    for fu in (1, 0, 2, (1 << 64) - 1):
        add(B.gpt_disk(entry_lba=2, first_usable=fu, length=2300000), 'gpt header first_usable=%d' % fu)
    # qcow2: the backing-file name (offset, length) and the cluster size are stream-supplied
    for cb in (9, 16, 19, 20, 21, 63):
        for bs in (1023, 65536, 523777, (1 << 32) - 1):
            for bo in (512, 104):
                d = B.qcow2(backing_offset=bo, backing_size=bs, cluster_bits=cb, length=512).data
                add(B.Image('qcow2', d + body[:2300000 - 512], bounds=[8, 16, 20, 24, 104, 512, bo,
                                                                       bo + 1023, bo + 65536, bo + 524288]),
                    'backing name at %d size=%d cluster_bits=%d' % (bo, bs, cb))
    # valid images of every format
    for im in F.wellformed(seed, full):
        add(im, 'valid ' + im.name)
    if full:
        for im in list(out):
            if len(im.data) > 300000 and im.fmt in ('vmdk', 'vhdx'):
                for t in F.truncations(im, around=False)[::3]:
                    add(t, 'trunc ' + t.name)
    return out


def _job(job):
    idx, sysname, seed, thorough = job
    from vlib.mc import stream as S
    from vlib.checks import c01
    im = _IMAGES[idx]
    data = im.data
    t0 = time.time()
    own = sysname == im.fmt
    if sysname == 'wrapper':
        system = S.WrapperSystem()
        cuts = c01.cuts_for(S, system, im, seed, 10 if len(data) > 500000 else 14)
    else:
        system = S.InspectorSystem(sysname)
        big = len(data) > 500000
        cap = (30 if big else 44) if own else (10 if big else 20)
        if thorough:
            cap = int(cap * 1.5)
        cuts = c01.cuts_for(S, system, im, seed, cap)
    worst = {}
    over = []

    def on_state(obj, p, path, res):
        for i in system.inspectors(obj):
            n = sum(i.context_info.values())
            if n > worst.get(i.NAME, -1):
                worst[i.NAME] = n
            if n > BOUND.get(i.NAME, DEFAULT_BOUND) and len(over) < 3:
                over.append({'inspector': i.NAME, 'retained': n, 'position': p,
                             'path': list(path)})

    r = S.explore(system, data, cuts, check_purity=False, on_state=on_state)
    return {'idx': idx, 'system': sysname, 'ncuts': len(cuts), 'states': r.states,
            'transitions': r.transitions, 'worst': worst, 'over': over,
            'caps': r.caps, 'ms': int((time.time() - t0) * 1000)}


def run(ctx):
    global _IMAGES
    from vlib.mc import stream as S    # noqa: F401
    rep = ctx.new_report()
    _IMAGES = family(ctx)
    jobs = []
    for idx, im in enumerate(_IMAGES):
        for sysname in ALL + ['wrapper']:
            jobs.append((idx, sysname, ctx.seed, ctx.thorough))
    jobs.sort(key=lambda j: -len(_IMAGES[j[0]].data) * (4 if j[1] in ('wrapper', 'vmdk') else 1))
    worst = {}
    for r in par.pmap(_job, jobs):
        im = _IMAGES[r['idx']]
        rep.count('states', r['states'])
        rep.count('transitions', r['transitions'])
        rep.count('traces_validated_against_impl', r['states'])
        rep.count('evaluations')
        rep.count('cpu_ms:%s' % r['system'], r['ms'])
        for c in r['caps']:
            rep.caps_hit.append('%s/%s: %s' % (im.name, r['system'], c))
        for name, n in r['worst'].items():
            if n > worst.get(name, (-1,))[0]:
                worst[name] = (n, im.name)
            if n > 0 and r['ncuts'] >= 2:
                rep.nontrivial('%s/%s' % (im.name, r['system']))
        for o in r['over']:
            rep.fail('I2:%s' % o['inspector'],
                     {'image': im.name, 'system': r['system'], 'inspector': o['inspector'],
                      'retained': o['retained'], 'bound': BOUND.get(o['inspector'], DEFAULT_BOUND),
                      'position': o['position'], 'path': o['path'][-5:]},
                     {'image': pack(im.data), 'image_name': im.name, 'system': r['system'],
                      'inspector': o['inspector'], 'path': o['path']})
    rep.count('images', len(_IMAGES))
    rep.notes['max_retained_per_inspector'] = {k: {'bytes': v[0], 'image': v[1]}
                                               for k, v in sorted(worst.items())}
    for im in (_IMAGES[0], _IMAGES[20], _IMAGES[-1]):
        rep.sample({'image': im.name, 'len': len(im.data)})
    rep.notes['rule'] = (
        'one exploration = (stream, inspector class or wrapper): all subsets '
        'of the cut set; I2 evaluated in every distinct state. Non-trivial = '
        'the inspector retained > 0 bytes and the exploration had >= 2 cuts; '
        'counted once per (stream, system).')
    rep.notes['bounds'] = {'images': len(_IMAGES), 'bound_bytes': dict(BOUND, default=DEFAULT_BOUND)}
    return rep


def replay(payload):
    from vlib.mc import stream as S
    data = unpack(payload['image'])
    system = (S.WrapperSystem() if payload['system'] == 'wrapper'
              else S.InspectorSystem(payload['system']))
    obj, trace = S.replay_path(system, data, payload['path'])
    got = {i.NAME: sum(i.context_info.values()) for i in system.inspectors(obj)}
    n = got.get(payload['inspector'], 0)
    return {'violates': n > BOUND.get(payload['inspector'], DEFAULT_BOUND),
            'retained': got}
