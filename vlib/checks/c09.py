"""C09 - exception-handling helpers never lose, replace or invent an exception.

Engine B over *programs*: every handler body of up to 4 actions (nesting up to
2) over {no-op, raise-and-catch an inner exception, raise a new exception,
reraise off/on, nested save_and_reraise_exception (around a fresh failure with
its own body / around nothing), force_reraise propagating / caught, capture in
an inner handler} x initial reraise flag x exception classes is executed on the
real save_and_reraise_exception and compared with a reference interpreter of
the action language: which object propagates (identity), that its traceback
still ends at the original raise site, how many 'Original exception being
dropped' records were logged. exception_filter: predicates x classes x usage
forms; remove_path_on_error: body outcome x path kind x remove behaviour;
raise_with_cause: implicit / explicit cause.
"""
import itertools
import os
import shutil
import sys
import tempfile

from vlib import par

PROPERTY = 'C09'
LEVEL = 'model_checking'
ENGINE = 'B'
TECHNIQUE = ('exhaustive enumeration of handler programs (bounded length and '
             'nesting) executed on the real context managers, compared with a '
             'reference interpreter of the action language')
LEVEL_TEXT = ('Every handler body up to the stated length/nesting over the '
              'action alphabet, for both initial reraise flags and six '
              'exception classes (plain, mandatory constructor arguments, '
              'chained, already carrying a traceback, KeyboardInterrupt, '
              'SystemExit), is run for real; the propagated object must be the '
              'identical object the reference interpreter predicts, with the '
              'original raise site as innermost traceback frame, and the '
              'number of "dropped" log records must match. The filter, '
              'remove_path_on_error and raise_with_cause are enumerated over '
              'their usage forms.')
LEVEL_NOTE = ('Trusted: the reference interpreter (vlib/checks/c09.py ref_run). '
              'remove_path_on_error is exercised with Exception subclasses '
              'only (it catches Exception). Programs longer than the bound are '
              'not covered.')

SIMPLE = ['noop', 'inner_caught', 'off', 'on', 'force_caught', 'capture_inside',
          'raise_new', 'force_prop', 'nested_nothing', 'clear_tb']
TERMINAL = {'raise_new', 'force_prop', 'nested_nothing'}
CLASSES = ['ValueError', 'NeedsArgs', 'Chained', 'HasTraceback', 'KeyboardInterrupt',
           'SystemExit', 'Falsy', 'EmptyAggregate', 'BadStr']


class NeedsArgs(Exception):
    def __init__(self, a, b):
        super().__init__(a, b)
        self.a, self.b = a, b


class Falsy(Exception):
    """An exception object that is false in a boolean context."""
    def __bool__(self):
        return False


class EmptyAggregate(Exception):
    """An exception with a length (an aggregate of sub-errors), currently empty."""
    def __init__(self, *errors):
        super().__init__(*errors)
        self.errors = list(errors)

    def __len__(self):
        return len(self.errors)


class BadStr(Exception):
    """A lazily formatted message whose formatting fails."""
    def __str__(self):
        return 'volume %(id)s' % {}


class Cancelled(BaseException):
    pass


class Inner(Exception):
    pass


class New(Exception):
    pass


class Fresh(Exception):
    pass


class CountingLogger:
    def __init__(self):
        self.errors = []

    def error(self, msg, *args, **kw):
        self.errors.append(msg)


def raise_site(exc):
    raise exc


def make_e0(cls):
    if cls == 'ValueError':
        return ValueError('boom')
    if cls == 'NeedsArgs':
        return NeedsArgs(1, 2)
    if cls == 'Chained':
        try:
            try:
                raise KeyError('cause')
            except KeyError as c:
                raise RuntimeError('effect') from c
        except RuntimeError as e:
            e.__traceback__ = None
            return e
    if cls == 'HasTraceback':
        try:
            raise OSError(5, 'already raised once')
        except OSError as e:
            return e
    if cls == 'Falsy':
        return Falsy('false in a boolean context')
    if cls == 'EmptyAggregate':
        return EmptyAggregate()
    if cls == 'BadStr':
        return BadStr()
    if cls == 'KeyboardInterrupt':
        return KeyboardInterrupt()
    if cls == 'SystemExit':
        return SystemExit(3)
    raise ValueError(cls)


# ---------------------------------------------------------------------------
# programs: body = tuple of actions; action = name | ('nested_fail', reraise, body)

def bodies(maxlen, alphabet):
    out = [()]
    for n in range(1, maxlen + 1):
        for seq_ in itertools.product(alphabet, repeat=n):
            if any(a in TERMINAL for a in seq_[:-1]):
                continue
            out.append(seq_)
    return out


def programs(maxlen, nested_len, depth2, SIMPLE=None):
    """All bodies with at most one nested_fail action at each level."""
    SIMPLE = SIMPLE or globals()['SIMPLE']
    inner_bodies = bodies(nested_len, SIMPLE)
    if depth2:
        inner2 = bodies(1, SIMPLE)
        extra = []
        for b in bodies(1, SIMPLE):
            for r in (True, False):
                for ib in inner2:
                    extra.append(b + (('nested_fail', r, ib),))
        inner_bodies = inner_bodies + extra
    nested = [('nested_fail', r, b) for r in (True, False) for b in inner_bodies]
    out = list(bodies(maxlen, SIMPLE))
    for n in range(1, maxlen + 1):
        for pos in range(n):
            for rest in itertools.product(SIMPLE, repeat=n - 1):
                if any(a in TERMINAL for a in rest[:-1]) and pos >= len(rest):
                    continue
                for nf in nested:
                    body = rest[:pos] + (nf,) + rest[pos:]
                    if any((a in TERMINAL) for a in body[:-1] if isinstance(a, str)):
                        continue
                    out.append(body)
    return out


# ---------------------------------------------------------------------------
# reference interpreter

class RefCtx:
    def __init__(self, saved, reraise):
        self.saved = saved        # token of the saved exception object
        self.has_value = True     # cleared by force_reraise
        self.reraise = reraise


def ref_body(ctx, body, active, log, f5):
    """Runs a body. -> token of the exception the body raised, or None.
    `active` = token of the exception being handled around this body."""
    for a in body:
        if a == 'noop' or a == 'inner_caught':
            continue
        if a == 'clear_tb':
            # the context that saved the exception restores its traceback when it re-raises;
            # a context entered *afterwards* for the same object never saw one: f5 gets a
            # 'nosite' marker and the traceback clause is not evaluated for that run
            if ctx.has_value:
                ctx.cleared = getattr(ctx, 'cleared', ()) + (ctx.saved,)
            continue
        if a == 'off':
            ctx.reraise = False
        elif a == 'on':
            ctx.reraise = True
        elif a == 'raise_new':
            return 'NEW'
        elif a == 'force_prop' or a == 'force_caught':
            if ctx.has_value:
                tok = ctx.saved
            else:
                tok = 'F5:reinstantiated'
                f5.append(True)
            ctx.has_value = False
            if a == 'force_prop':
                return tok
        elif a == 'capture_inside':
            ctx.saved = 'INNER2'
            ctx.has_value = True
        elif a == 'nested_nothing':
            # captures the exception active around this body, re-raises it
            if active in getattr(ctx, 'cleared', ()):
                log.append('nosite')
            return active
        else:
            _, r, ib = a
            c2 = RefCtx('FRESH', r)
            raised = ref_body(c2, ib, 'FRESH', log, f5)
            out = ref_exit(c2, raised, log, f5)
            if out is not None:
                return out
    return None


def ref_exit(ctx, raised, log, f5):
    if raised is not None:
        if ctx.reraise:
            log.append('dropped')
        return raised
    if ctx.reraise:
        if ctx.has_value:
            return ctx.saved
        f5.append(True)
        return 'F5:reinstantiated'
    return None


NOSITE = [False]       # set by ref_run: the traceback clause does not apply to this run


def ref_run(body, r0, post=False):
    log, f5 = [], []
    ctx = RefCtx('E0', r0)
    raised = ref_body(ctx, body, 'E0', log, f5)
    out = ref_exit(ctx, raised, log, f5)
    if out is None and post:
        # ctxt.force_reraise() after the block (the documented way to re-raise
        # later what was suppressed in the block)
        if ctx.has_value:
            out = ctx.saved
        else:
            out = 'F5:reinstantiated'
            f5.append(True)
    NOSITE[0] = 'nosite' in log
    return out, sum(1 for x in log if x == 'dropped'), bool(f5)


# ---------------------------------------------------------------------------
# real execution

def real_body(excutils, ctx, body, tokens, logger):
    for a in body:
        if a == 'noop':
            pass
        elif a == 'inner_caught':
            try:
                raise Inner('inner')
            except Inner:
                pass
        elif a == 'clear_tb':
            # something the body calls (an error archive, a cycle breaker) resets the
            # traceback of the exception being handled: the re-raise must still carry
            # the traceback of the original raise
            v = getattr(ctx, 'value', None)
            if isinstance(v, BaseException):
                v.with_traceback(None)
        elif a == 'off':
            ctx.reraise = False
        elif a == 'on':
            ctx.reraise = True
        elif a == 'raise_new':
            e = New('new')
            tokens[id(e)] = 'NEW'
            tokens.setdefault('keep', []).append(e)
            raise e
        elif a == 'force_prop':
            ctx.force_reraise()
        elif a == 'force_caught':
            try:
                ctx.force_reraise()
            except BaseException:
                pass
        elif a == 'capture_inside':
            try:
                e = Inner('inner2')
                tokens[id(e)] = 'INNER2'
                tokens.setdefault('keep', []).append(e)
                raise e
            except Inner:
                ctx.capture()
        elif a == 'nested_nothing':
            with excutils.save_and_reraise_exception(logger=logger):
                pass
        else:
            _, r, ib = a
            try:
                e = Fresh('fresh')
                tokens[id(e)] = 'FRESH'
                tokens.setdefault('keep', []).append(e)
                raise_site(e)
            except Fresh:
                with excutils.save_and_reraise_exception(reraise=r, logger=logger) as c2:
                    real_body(excutils, c2, ib, tokens, logger)


def site_of(tok, cls):
    """Function whose frame is the innermost one of the original raise."""
    if tok == 'E0' and cls == 'HasTraceback':
        return 'make_e0'          # it had been raised (and caught) there before
    return 'raise_site'


def innermost_frame(exc):
    tb = exc.__traceback__
    name = None
    while tb is not None:
        name = tb.tb_frame.f_code.co_name
        tb = tb.tb_next
    return name


def real_run(body, r0, cls, post=False):
    from oslo_utils import excutils
    logger = CountingLogger()
    e0 = make_e0(cls)
    tokens = {id(e0): 'E0'}
    out = None
    try:
        try:
            raise_site(e0)
        except BaseException:
            with excutils.save_and_reraise_exception(reraise=r0, logger=logger) as ctx:
                real_body(excutils, ctx, body, tokens, logger)
            if post:
                ctx.force_reraise()
    except BaseException as e:
        tok = tokens.get(id(e))
        if tok is None:
            tok = 'other:%s' % type(e).__name__
        site = innermost_frame(e)
        out = (tok, site)
    dropped = sum(1 for m in logger.errors if 'Original exception being dropped' in m)
    return out, dropped, len(logger.errors)


def _job(job):
    lo, hi, maxlen, nested_len, depth2 = job
    progs = _PROGS
    out = {'programs': 0, 'transitions': 0, 'states': set(), 'problems': [], 'known': 0,
           'outcomes': set()}
    for i in range(lo, min(hi, len(progs))):
        body = progs[i]
        variants = []
        for r0 in (True, False):
            variants.append((r0, False))
            if ref_run(body, r0)[0] is None:
                variants.append((r0, True))       # nothing propagated: force_reraise() afterwards
        for r0, post in variants:
            want_tok, want_log, f5 = ref_run(body, r0, post)
            nosite = NOSITE[0]
            for cls in CLASSES:
                got, dropped, nerr = real_run(body, r0, cls, post)
                out['programs'] += 1
                out['transitions'] += len(body) + 1
                out['states'].add((want_tok, want_log, r0))
                out['outcomes'].add((want_tok, want_log))
                bad = None
                got_tok = got[0] if got else None
                if f5:
                    # recorded finding: after a caught force_reraise the saved value
                    # is gone; demand only that nothing *else* goes wrong
                    if want_tok == 'F5:reinstantiated':
                        if got_tok is None or not got_tok.startswith('other:'):
                            bad = ('F5-shape', 'expected a re-instantiated exception or TypeError')
                        out['known'] += 1
                        if bad is None and len(out['problems']) < 40:
                            out['problems'].append({'body': body, 'r0': r0, 'cls': cls, 'post': post,
                                                    'kind': 'F5', 'got': got, 'want': want_tok,
                                                    'sig': True})
                        if bad is None:
                            continue
                    elif got_tok != want_tok:
                        bad = ('propagated', 'got %r want %r' % (got, want_tok))
                else:
                    if got_tok != want_tok:
                        bad = ('propagated', 'got %r want %r' % (got, want_tok))
                    elif dropped != want_log or nerr != want_log:
                        bad = ('log-count', 'logged %d dropped records (%d errors), want %d'
                               % (dropped, nerr, want_log))
                    elif got is not None and want_tok in ('E0', 'FRESH') and not nosite and \
                            got[1] != site_of(want_tok, cls):
                        bad = ('traceback', 'innermost frame %r, want %r'
                               % (got[1], site_of(want_tok, cls)))
                if bad and len(out['problems']) < 40:
                    out['problems'].append({'body': body, 'r0': r0, 'cls': cls, 'kind': bad[0],
                                            'post': post,
                                            'detail': bad[1], 'got': got, 'want': want_tok,
                                            'want_log': want_log, 'sig': False})
    out['states'] = len(out['states'])
    return out


_PROGS = []


# ---------------------------------------------------------------------------
# exception_filter, remove_path_on_error, raise_with_cause

def check_filter(rep):
    from oslo_utils import excutils
    preds = {'all': lambda e: True, 'none': lambda e: False,
             'by_class': lambda e: isinstance(e, (KeyError, Cancelled)),
             'by_message': lambda e: 'skip' in str(e)}
    excs = [lambda: KeyError('k'), lambda: ValueError('please skip'), lambda: ValueError('no'),
            lambda: NeedsArgs(1, 2), lambda: OSError(2, 'skip it'),
            lambda: Cancelled('task cancelled, skip'), lambda: SystemExit(0),
            lambda: KeyboardInterrupt(), lambda: Falsy('skip me'), lambda: EmptyAggregate()]

    class Holder:
        def __init__(self, p):
            self.p = p
            self.seen = []

        @excutils.exception_filter
        def filt(self, ex):
            self.seen.append(ex)
            return self.p(ex)

    for pname, p in preds.items():
        for mk in excs:
            for form in ('ctx', 'method_ctx', 'call_in_handler', 'method_call_in_handler',
                         'call_outside', 'call_other_active', 'method_call_other_active',
                         'method_ctx_on_copy', 'method_call_in_handler_on_copy',
                         'method_ctx_on_equal_twin', 'method_call_in_handler_on_equal_twin',
                         'call_same_class_active', 'method_call_same_class_active'):
                ex = mk()
                want_suppressed = bool(p(ex))
                filt = excutils.exception_filter(p)
                holder = Holder(p)
                if form.endswith('_on_copy'):
                    # the holder is a shallow copy of another object whose filter has been
                    # used: the copy's filter must consult the copy's own predicate
                    import copy as _copy
                    first = Holder(lambda e, _p=p: not _p(e))
                    try:
                        with first.filt:
                            pass
                    except BaseException:
                        pass
                    holder = _copy.copy(first)
                    holder.p = p
                    holder.seen = []
                    form_run = form[:-len('_on_copy')]
                elif form.endswith('_on_equal_twin'):
                    # two holders that compare (and hash) equal but carry different predicates:
                    # the twin's filter has been used before
                    class ValueHolder(Holder):
                        def __eq__(self, other):
                            return isinstance(other, Holder)

                        def __hash__(self):
                            return 7
                    first = ValueHolder(lambda e, _p=p: not _p(e))
                    try:
                        with first.filt:
                            pass
                    except BaseException:
                        pass
                    holder = ValueHolder(p)
                    form_run = form[:-len('_on_equal_twin')]
                else:
                    form_run = form
                got = None
                try:
                    if form_run == 'ctx':
                        with filt:
                            raise_site(ex)
                    elif form_run == 'method_ctx':
                        with holder.filt:
                            raise_site(ex)
                    elif form_run == 'call_in_handler':
                        try:
                            raise_site(ex)
                        except BaseException as caught:
                            filt(caught)
                    elif form_run == 'method_call_in_handler':
                        try:
                            raise_site(ex)
                        except BaseException as caught:
                            holder.filt(caught)
                    elif form == 'call_outside':
                        filt(ex)
                    elif form_run in ('call_same_class_active', 'method_call_same_class_active'):
                        # a stored exception is handed to the filter while *another instance of
                        # the same class* is being handled
                        try:
                            raise_site(mk())
                        except BaseException:
                            (filt if form_run == 'call_same_class_active' else holder.filt)(ex)
                    elif form in ('call_other_active', 'method_call_other_active'):
                        try:
                            raise ZeroDivisionError('unrelated active exception')
                        except ZeroDivisionError:
                            (filt if form == 'call_other_active' else holder.filt)(ex)
                except BaseException as e:
                    got = e
                rep.count('evaluations')
                rep.count('filter_cases')
                rep.nontrivial('filter/%s/%s/%s' % (pname, type(ex).__name__ + str(ex), form))
                payload = {'filter': [pname, excs.index(mk), form]}
                if want_suppressed:
                    if got is not None:
                        rep.fail('filter-not-suppressed:%s' % form,
                                 {'predicate': pname, 'exception': repr(ex), 'form': form,
                                  'got': repr(got)}, payload)
                else:
                    if got is not ex:
                        rep.fail('filter-lost-or-replaced:%s' % form,
                                 {'predicate': pname, 'exception': repr(ex), 'form': form,
                                  'got': repr(got)}, payload)
                    elif form_run in ('ctx', 'method_ctx', 'call_in_handler',
                                      'method_call_in_handler') and innermost_frame(got) != 'raise_site':
                        rep.fail('filter-traceback:%s' % form,
                                 {'predicate': pname, 'form': form,
                                  'innermost': innermost_frame(got)}, payload)
                if form.startswith('method') and holder.seen and holder.seen[0] is not ex:
                    rep.fail('filter-method-wrong-argument:%s' % form,
                             {'predicate': pname, 'form': form}, payload)


def check_remove_path(rep):
    from oslo_utils import fileutils
    tmp = tempfile.mkdtemp(prefix='verif-c09-')
    try:
        kinds = ['file', 'absent', 'symlink', 'dangling_symlink', 'dir_custom_remove']
        for kind in kinds:
            for outcome in ('ok', 'raises'):
                for rm in ('default', 'custom_ok', 'custom_raises'):
                    if kind == 'dir_custom_remove' and rm == 'default':
                        continue
                    path = os.path.join(tmp, 'p-%s-%s-%s' % (kind, outcome, rm))
                    target = path + '.target'
                    if kind == 'file':
                        open(path, 'w').close()
                    elif kind == 'symlink':
                        open(target, 'w').close()
                        os.symlink(target, path)
                    elif kind == 'dangling_symlink':
                        os.symlink(target, path)
                    elif kind == 'dir_custom_remove':
                        os.mkdir(path)
                    calls = []
                    rm_exc = OSError(13, 'remove failed')

                    def custom_ok(p, _c=calls):
                        _c.append(p)
                        if os.path.isdir(p) and not os.path.islink(p):
                            os.rmdir(p)
                        elif os.path.lexists(p):
                            os.unlink(p)

                    def custom_raises(p, _c=calls):
                        _c.append(p)
                        raise rm_exc
                    kw = {} if rm == 'default' else {
                        'remove': custom_ok if rm == 'custom_ok' else custom_raises}
                    body_exc = ValueError('body failed')
                    got = None
                    try:
                        with fileutils.remove_path_on_error(path, **kw):
                            if outcome == 'raises':
                                raise_site(body_exc)
                    except BaseException as e:
                        got = e
                    rep.count('evaluations')
                    rep.count('remove_path_cases')
                    rep.nontrivial('rmpath/%s/%s/%s' % (kind, outcome, rm))
                    payload = {'rmpath': [kind, outcome, rm]}
                    exists = os.path.lexists(path)
                    if outcome == 'ok':
                        if got is not None or calls or (kind != 'absent') != exists:
                            rep.fail('rmpath-touched-without-error',
                                     {'kind': kind, 'remove': rm, 'got': repr(got),
                                      'exists_after': exists}, payload)
                    else:
                        if rm == 'custom_raises' and kind == 'absent':
                            # nothing to remove: whether remove is still called
                            # (and its error surfaces) is not stated
                            if got is not rm_exc and got is not body_exc:
                                rep.fail('rmpath-exception-replaced',
                                         {'kind': kind, 'got': repr(got)}, payload)
                        elif rm == 'custom_raises':
                            if got is not rm_exc:
                                rep.fail('rmpath-remove-error-lost',
                                         {'kind': kind, 'got': repr(got)}, payload)
                        else:
                            if got is not body_exc:
                                rep.fail('rmpath-original-not-reraised',
                                         {'kind': kind, 'remove': rm, 'got': repr(got)}, payload)
                            elif exists:
                                rep.fail('rmpath-not-removed',
                                         {'kind': kind, 'remove': rm}, payload)
                            elif innermost_frame(got) != 'raise_site':
                                rep.fail('rmpath-traceback', {'kind': kind}, payload)
                            if rm == 'custom_ok' and kind != 'absent' and calls != [path]:
                                rep.fail('rmpath-remove-not-called-once',
                                         {'kind': kind, 'calls': calls}, payload)
    finally:
        shutil.rmtree(tmp, ignore_errors=True)


def check_raise_with_cause(rep):
    from oslo_utils import excutils
    for mode in ('implicit', 'explicit', 'explicit_none', 'no_active'):
        cause = KeyError('root cause')
        got = None
        try:
            if mode == 'implicit':
                try:
                    raise cause
                except KeyError:
                    excutils.raise_with_cause(excutils.CausedByException, 'msg')
            elif mode == 'explicit':
                try:
                    raise ZeroDivisionError('other')
                except ZeroDivisionError:
                    excutils.raise_with_cause(excutils.CausedByException, 'msg', cause=cause)
            elif mode == 'explicit_none':
                try:
                    raise ZeroDivisionError('other')
                except ZeroDivisionError:
                    excutils.raise_with_cause(excutils.CausedByException, 'msg', cause=None)
            else:
                excutils.raise_with_cause(excutils.CausedByException, 'msg')
        except excutils.CausedByException as e:
            got = e
        except BaseException as e:
            got = e
        rep.count('evaluations')
        rep.nontrivial('cause/' + mode)
        want = cause if mode in ('implicit', 'explicit') else None
        ok = isinstance(got, excutils.CausedByException) and got.__cause__ is want and \
            getattr(got, 'cause', None) is want
        if not ok:
            rep.fail('raise_with_cause:%s' % mode,
                     {'mode': mode, 'got': repr(got), 'cause': repr(getattr(got, '__cause__', None))},
                     {'cause': mode})


def check_capture_chain(rep):
    """save_and_reraise_exception().capture().force_reraise() inside a handler
    re-raises the active exception object; outside a handler capture() refuses."""
    from oslo_utils import excutils
    for cls in CLASSES:
        e0 = make_e0(cls)
        got = None
        try:
            try:
                raise_site(e0)
            except BaseException:
                excutils.save_and_reraise_exception().capture().force_reraise()
        except BaseException as e:
            got = e
        rep.count('evaluations')
        rep.nontrivial('chain/' + cls)
        if got is not e0 or innermost_frame(got) != site_of('E0', cls):
            rep.fail('capture-chain:%s' % cls, {'class': cls, 'got': repr(got)}, {'chain': cls})
    for fn in ('capture', 'force_reraise'):
        rep.count('evaluations')
        try:
            getattr(excutils.save_and_reraise_exception(), fn)()
            rep.fail('not-active-accepted:%s' % fn, {}, {'chain': fn})
        except RuntimeError:
            pass


def run(ctx):
    global _PROGS
    import logging
    logging.getLogger().addHandler(logging.NullHandler())
    logging.getLogger().setLevel(logging.CRITICAL + 1)
    rep = ctx.new_report()
    maxlen = 4 if ctx.thorough else 3
    nested_len = 2 if ctx.thorough else 1
    depth2 = True
    if ctx.thorough:
        _PROGS = programs(maxlen, nested_len, depth2)
    else:
        # quick: the full structure over the alphabet without 'clear_tb', bodies of length 4
        # over it, and every program (one nesting level) that does contain 'clear_tb'
        base = [a for a in SIMPLE if a != 'clear_tb']
        _PROGS = programs(maxlen, nested_len, depth2, base)
        _PROGS += [b for b in bodies(4, base) if len(b) == 4]
        _PROGS += [b for b in programs(maxlen, nested_len, False, SIMPLE) if 'clear_tb' in repr(b)]
    n = len(_PROGS)
    step = max(1, n // (par.workers() * 4))
    jobs = [(lo, lo + step, maxlen, nested_len, depth2) for lo in range(0, n, step)]
    outcomes = set()
    for out in par.pmap(_job, jobs):
        rep.count('programs', out['programs'])
        rep.count('evaluations', out['programs'])
        rep.count('transitions', out['transitions'])
        rep.count('traces_validated_against_impl', out['programs'])
        rep.count('states', out['states'])
        for p in out['problems']:
            payload = {'body': repr(p['body']), 'r0': p['r0'], 'cls': p['cls'],
                       'post': p.get('post', False)}
            if p['sig']:
                rep.fail('F5', {'body': repr(p['body']), 'reraise': p['r0'], 'class': p['cls'],
                                'force_reraise_after_block': p.get('post', False),
                                'got': repr(p['got'])}, payload,
                         sigs=['F5-force-reraise-caught'])
            else:
                rep.fail('%s:%s' % (p['kind'], p['cls']),
                         {'body': repr(p['body']), 'reraise': p['r0'], 'class': p['cls'],
                          'force_reraise_after_block': p.get('post', False),
                          'got': repr(p['got']), 'want': p['want'], 'detail': p['detail'],
                          'want_dropped_logs': p['want_log']}, payload)
    for i, b in enumerate(_PROGS):
        rep.nontrivial(repr(b))
    check_filter(rep)
    check_remove_path(rep)
    check_raise_with_cause(rep)
    check_capture_chain(rep)
    rep.count('distinct_bodies', n)
    rep.sample({'body': ['inner_caught', 'off', ['nested_fail', True, ['raise_new']], 'on'],
                'initial_reraise': True, 'class': 'NeedsArgs'})
    rep.sample({'body': ['capture_inside', 'force_caught'], 'initial_reraise': False,
                'class': 'KeyboardInterrupt'})
    rep.notes['rule'] = (
        'one program = (handler body, initial reraise flag, exception class), '
        'run on the real context manager; states = distinct reference outcomes '
        '(propagated token, log count, flag) per worker partition; '
        'distinct_nontrivial = distinct handler bodies + filter / '
        'remove_path / cause cases.')
    rep.notes['bounds'] = {'max_body_length': maxlen if ctx.thorough else '3 (+ all length-4 bodies without nesting)',
                           'nested_body_length': nested_len, 'nesting': 2,
                           'actions': SIMPLE + ['nested_fail'], 'classes': CLASSES}
    return rep


def replay(payload):
    if 'body' in payload:
        import ast
        body = ast.literal_eval(payload['body'])
        post = payload.get('post', False)
        want_tok, want_log, f5 = ref_run(body, payload['r0'], post)
        nosite = NOSITE[0]
        got, dropped, nerr = real_run(body, payload['r0'], payload['cls'], post)
        got_tok = got[0] if got else None
        bad = got_tok != want_tok or (not f5 and (dropped != want_log or nerr != want_log)) or \
            (got is not None and want_tok in ('E0', 'FRESH') and not nosite and
             got[1] != site_of(want_tok, payload['cls']))
        return {'violates': bool(bad), 'got': got, 'want': want_tok, 'dropped_logged': dropped,
                'want_dropped': want_log}
    # the small enumerations are re-run completely
    from vlib.report import Report
    rep = Report('C09', {})
    if 'filter' in payload:
        check_filter(rep)
    elif 'rmpath' in payload:
        check_remove_path(rep)
    elif 'chain' in payload:
        check_capture_chain(rep)
    else:
        check_raise_with_cause(rep)
    return {'violates': bool(rep.violations),
            'classes': sorted(rep.violations)}
