"""C11 - address validators accept exactly well-formed values and never raise.

Engine C: strings derived from address grammars, three-way classified by a
reference: ACCEPT (canonical well-formed values; the reference's verdict on
these is cross-checked with the standard library's `ipaddress`, a disagreement
is a harness error), REJECT (the classes the statement enumerates: ranges,
group counts, scope-id length, missing/empty prefix) and NOFAIL (every other
spelling: the validator must answer, whatever it answers).
"""
import ipaddress
import itertools

from vlib.mc import enum as E

PROPERTY = 'C11'
LEVEL = 'model_checking'
ENGINE = 'C'
TECHNIQUE = ('stateless bounded model checking: complete enumeration of strings from address grammars, '
             'three-way reference classification cross-checked with ipaddress')
LEVEL_TEXT = ('All dotted quads with 1..5 parts over 15 octet spellings, IPv6 '
              'texts with 1..9 groups, "::" at every position, embedded IPv4 '
              'tails and scope ids of length 0..17, CIDRs over 14 prefix '
              'spellings with 0..2 slashes, MACs with 5..7 groups over five '
              'separator styles, integers around each range end as int and '
              'str, every printable ASCII character alone and appended, NUL '
              'and non-ASCII digits: each is passed to every validator of its '
              'kind; must-accept / must-reject / must-answer.')
LEVEL_NOTE = ('Spellings the statement does not classify (leading zeros, '
              'netmask notation, separators other than ":" for MACs, a space '
              'before a prefix length, is_valid_ipv6_cidr without a prefix - '
              'pinned True by an existing test) only need an answer. Trusted: '
              'the reference classification, cross-checked with ipaddress.')

ACCEPT, REJECT, NOFAIL = 'ACCEPT', 'REJECT', 'NOFAIL'

OCTETS = ['-1', '0', '1', '9', '10', '99', '100', '255', '256', '300', '01', '001', '0x1', '1e1', '']
CANON_OCTETS = {'0', '1', '9', '10', '99', '100', '255'}
RANGE_OCTETS = {'256', '300', '-1'}


def v4_class(parts):
    """strict dotted-quad presentation format"""
    if len(parts) != 4:
        # fewer/more groups; but weird spellings with dots inside stay unclassified
        if all(p in CANON_OCTETS | RANGE_OCTETS for p in parts):
            return REJECT
        return NOFAIL
    if all(p in CANON_OCTETS for p in parts):
        return ACCEPT
    if any(p in RANGE_OCTETS for p in parts) and all(p in CANON_OCTETS | RANGE_OCTETS for p in parts):
        return REJECT
    if any(p == '' for p in parts) and all(p in CANON_OCTETS | {''} for p in parts):
        return REJECT          # an empty group: wrong group count in effect
    return NOFAIL


def gen_v4():
    out = []
    for n in (1, 2, 3, 4):
        for parts in itertools.product(OCTETS, repeat=n):
            out.append(('.'.join(parts), v4_class(parts)))
    small = ['0', '255', '256', '01', '']
    for parts in itertools.product(small, repeat=5):
        out.append(('.'.join(parts), v4_class(parts)))
    return out


GROUPS_OK = ['0', '1', 'ffff', 'Ab9']
GROUPS_BAD = ['10000', 'g', '']


def v6_base_cases():
    """(text, class) for scope-less IPv6 texts."""
    out = {}

    def add(t, c):
        out.setdefault(t, c)
    # full forms with n groups
    for n in range(1, 10):
        for g in GROUPS_OK[:3]:
            groups = [g] * n
            add(':'.join(groups), ACCEPT if n == 8 else REJECT)
            for pos in range(n):
                for bad in GROUPS_BAD:
                    gg = list(groups)
                    gg[pos] = bad
                    t = ':'.join(gg)
                    if bad == '' and n >= 2:
                        # an empty group creates '::' or a leading/trailing ':' -
                        # classified by the '::' family below or left open
                        add(t, NOFAIL)
                    else:
                        add(t, REJECT)
    # '::' at every position with k explicit groups
    for k in range(0, 9):
        for p in range(0, k + 1):
            for g in ('1', 'ffff'):
                left = ':'.join([g] * p)
                right = ':'.join(['2'] * (k - p))
                t = left + '::' + right
                add(t, ACCEPT if k <= 7 else REJECT)
    add(':::', REJECT)
    add('1::2::3', REJECT)
    add('::1::', REJECT)
    # embedded IPv4 tails
    add('::ffff:1.2.3.4', ACCEPT)
    add('::1.2.3.4', ACCEPT)
    add('1:2:3:4:5:6:1.2.3.4', ACCEPT)
    add('1:2:3:4:5:6:7:1.2.3.4', REJECT)
    add('::ffff:1.2.3.256', REJECT)
    add('::ffff:1.2.3', REJECT)
    add('1.2.3.4::', REJECT)
    add('::1.2.3.4:5', REJECT)
    for t in ('', ':', 'fe80', '12345::', '::g', 'fe80::1/64', ' ::1', '::1 ', '[::1]'):
        add(t, REJECT if t not in ('',) else REJECT)
    return sorted(out.items())


def gen_v6():
    out = []
    base = v6_base_cases()
    for t, c in base:
        out.append((t, c))
    # interface names as they occur: VLAN sub-interfaces (dot), bridges (dash), digits only
    scopes = ['', 'x', 'eth0', 'e' * 15, 'e' * 16, 'e' * 17, '.', 'eth0.100', 'enp3s0.4094', 'br-int',
              '1', 'a_b', 'wlan0:1', 'tap0123456789ab']
    for t, c in base:
        if c == NOFAIL or len(out) > 100000:
            continue
        for sc in scopes:
            if c == ACCEPT:
                cls = ACCEPT if 1 <= len(sc) <= 15 else REJECT
            else:
                cls = REJECT
            out.append((t + '%' + sc, cls))
        out.append((t + '%eth0%x', REJECT))
        out.append((t + '%%', REJECT))
    return out


PREFIXES = ['-1', '0', '1', '8', '31', '32', '33', '64', '127', '128', '129', '', ' 8', '08']
V4_ADDRS = [('10.0.0.0', True), ('192.168.1.255', True), ('0.0.0.0', True),
            ('256.0.0.0', False), ('10.0.0', None), ('10.0.0.0.0', False), ('', False)]
V6_ADDRS = [('2600::', True), ('::1', True), ('fe80::1:2:3:4', True),
            ('1:2:3:4:5:6:7:8', True), ('::ffff:1.2.3.4', True),
            ('1:2:3:4:5:6:7:8:9', False), ('::g', False), ('12345::', False)]


def gen_cidr():
    """(text, class for is_valid_cidr, class for is_valid_ipv6_cidr)"""
    out = []
    for fam, addrs, maxp in ((4, V4_ADDRS, 32), (6, V6_ADDRS, 128)):
        for a, ok in addrs:
            # no slash: missing prefix
            out.append((a, REJECT, NOFAIL if fam == 6 and ok else REJECT))
            for p in PREFIXES:
                for form in ('%s/%s', '%s//%s', '%s/%s/%s', '/%s/%s'):
                    if form == '%s/%s/%s':
                        t = form % (a, p, p)
                    elif form == '/%s/%s':
                        t = form % (a, p)
                    else:
                        t = form % (a, p)
                    canon = p.isdigit() and str(int(p)) == p
                    if form != '%s/%s':
                        c4 = c6 = REJECT
                    elif ok is None:
                        c4 = c6 = NOFAIL              # abbreviated IPv4 network forms
                    elif not ok:
                        c4 = c6 = REJECT
                    elif p == '':
                        c4, c6 = REJECT, NOFAIL       # empty prefix
                    elif canon and int(p) <= maxp:
                        c4, c6 = ACCEPT, (ACCEPT if fam == 6 else REJECT)
                    elif canon or p == '-1':
                        c4, c6 = REJECT, REJECT       # prefix out of range
                    else:
                        c4 = c6 = NOFAIL              # ' 8', '08'
                    out.append((t, c4, c6))
    # IPv4 networks whose prefix is spelled as a dotted mask: netmask, host (wildcard) mask,
    # non-contiguous; the standard library defines the answer (ipaddress.ip_network, non-strict)
    import ipaddress
    masks = ['255.255.255.0', '255.0.0.0', '255.255.255.255', '0.0.0.0', '0.0.0.255', '0.255.255.255',
             '0.0.0.1', '0.0.255.255', '255.0.255.0', '0.255.0.255', '255.255.255.256', '1.2.3.4',
             '128.0.0.0', '127.255.255.255']
    for a in ('10.0.0.0', '192.0.2.0', '10.1.2.3', '0.0.0.0'):
        for m in masks:
            t = '%s/%s' % (a, m)
            try:
                ipaddress.ip_network(t, strict=False)
                c4 = ACCEPT
            except ValueError:
                c4 = NOFAIL
            out.append((t, c4, NOFAIL))
    return out


HEXPAIRS = ['00', 'ff', 'FF', 'a1', 'Fe', '9C']


def gen_mac():
    out = []
    for n in (5, 6, 7):
        for start in range(3):
            groups = [HEXPAIRS[(start + i) % len(HEXPAIRS)] for i in range(n)]
            for sep in (':', '-', '.', ''):
                t = sep.join(groups)
                if sep == ':':
                    out.append((t, ACCEPT if n == 6 else REJECT))
                else:
                    out.append((t, NOFAIL if n == 6 else NOFAIL))
            out.append((':'.join(groups[:3]) + '-' + ':'.join(groups[3:]), NOFAIL if n != 6 else REJECT))
            if n == 6:
                for pos in range(6):
                    for bad in ('g0', '0g', '0', '000', '', ' 0', '0x'):
                        gg = list(groups)
                        gg[pos] = bad
                        out.append((':'.join(gg), REJECT))
                for pos in (0, 5):
                    for bad in ('0\uff15', '\u0660\u0660', '\uff10\uff10', 'a\u0661'):
                        gg = list(groups)
                        gg[pos] = bad            # digits, but not the ASCII hex digits of a MAC
                        out.append((':'.join(gg), REJECT))
                out.append((':'.join(groups) + ':', REJECT))
                out.append((':' + ':'.join(groups), REJECT))
                out.append((':'.join(groups) + '/24', REJECT))
                out.append((':'.join(groups) + ' ', REJECT))
                out.append((' ' + ':'.join(groups), REJECT))
    return out


def gen_ints():
    """(value, {func: class})"""
    out = []
    for v in (-65536, -1, 0, 1, 254, 255, 256, 65534, 65535, 65536, 10 ** 30):
        for form in (v, str(v)):
            out.append((form, {'is_valid_port': ACCEPT if 0 <= v <= 65535 else REJECT,
                               'is_valid_icmp_type': ACCEPT if 0 <= v <= 255 else REJECT,
                               'is_valid_icmp_code': ACCEPT if 0 <= v <= 255 else REJECT}))
    for odd in ('+1', '-0', ' 1', '1 ', '1_0', '1.0', '1e1', None, True, 1.5, '²', '8²', '①', '-³',
                ' ⁵ ', '١٢', '1\x00', '\x00'):
        out.append((odd, {'is_valid_port': NOFAIL, 'is_valid_icmp_type': NOFAIL,
                          'is_valid_icmp_code': ACCEPT if odd is None else NOFAIL}))
    # strings that are no number in any reading: not a port, not an ICMP type, not an ICMP code
    for junk in ('', 'abc', '1.0', '1e1', '0x1', 'None', 'zero', '-', '+', '1,0', '1 0', '0b1', 'ten'):
        out.append((junk, {'is_valid_port': REJECT, 'is_valid_icmp_type': REJECT,
                           'is_valid_icmp_code': REJECT}))
    return out


PRINTABLE = [chr(c) for c in range(32, 127)] + ['\x00', '\n', '\t', 'é', '中']
ADDR_FUNCS = ['is_valid_ipv4', 'is_valid_ipv6', 'is_valid_ip', 'is_valid_cidr',
              'is_valid_ipv6_cidr', 'is_valid_mac']


def call(fname, arg):
    from oslo_utils import netutils
    out = []
    for _ in (1, 2):          # asked twice: the answer must not depend on earlier calls
        try:
            out.append(('ret', bool(getattr(netutils, fname)(arg))))
        except Exception as e:
            out.append(('raises', type(e).__name__))
    if out[0] != out[1]:
        return ('raises', 'UnstableAnswer:%r-then-%r' % (out[0], out[1]))
    return out[0]


def _case(vals, acc):
    fname, arg, cls = vals[0]
    got = call(fname, arg)
    key = '%s(%r)' % (fname, arg)
    acc.count('class:' + cls)
    if got[0] == 'raises':
        acc.fail('raises:%s:%s' % (fname, got[1]), {'call': key, 'class': cls, 'exception': got[1]},
                 {'func': fname, 'arg_repr': repr(arg), 'class': cls})
        return
    if cls != NOFAIL:
        acc.nontrivial(key)
    if cls == ACCEPT and not got[1]:
        acc.fail('rejected-wellformed:%s' % fname, {'call': key},
                 {'func': fname, 'arg_repr': repr(arg), 'class': cls})
    elif cls == REJECT and got[1]:
        acc.fail('accepted-malformed:%s' % fname, {'call': key},
                 {'func': fname, 'arg_repr': repr(arg), 'class': cls})


def crosscheck(cases):
    """ACCEPT-class address texts must be accepted by the standard library,
    REJECT-class scope-less texts must be refused by it."""
    for fname, arg, cls in cases:
        if fname == 'is_valid_ipv4' and cls in (ACCEPT, REJECT):
            try:
                ipaddress.IPv4Address(arg)
                ok = True
            except ValueError:
                ok = False
            if ok != (cls == ACCEPT):
                raise RuntimeError('reference disagrees with ipaddress on IPv4 %r (%s)' % (arg, cls))
        if fname == 'is_valid_ipv6' and cls in (ACCEPT, REJECT) and '%' not in arg:
            try:
                ipaddress.IPv6Address(arg)
                ok = True
            except ValueError:
                ok = False
            if ok != (cls == ACCEPT):
                raise RuntimeError('reference disagrees with ipaddress on IPv6 %r (%s)' % (arg, cls))
        if fname == 'is_valid_cidr' and cls == ACCEPT:
            ipaddress.ip_network(arg, strict=False)


def cases(ctx):
    out = []
    for t, c in gen_v4():
        out.append(('is_valid_ipv4', t, c))
        # is_valid_ip also admits the inet_aton short forms: only canonical
        # quads are must-accept, only range errors in 4-part forms must-reject
        parts = t.split('.')
        c_ip = c if (len(parts) == 4 or c == NOFAIL) else NOFAIL
        if len(parts) == 5 and c == REJECT:
            c_ip = REJECT
        out.append(('is_valid_ip', t, c_ip))
    for t, c in gen_v6():
        out.append(('is_valid_ipv6', t, c))
        # is_valid_ip also admits inet_aton forms (a bare number, a.b, ...):
        # only texts containing ':' are certainly not one of those
        out.append(('is_valid_ip', t, c if (c == ACCEPT or (':' in t and '.' not in t)) else NOFAIL))
        out.append(('is_valid_ipv4', t, REJECT if t else REJECT))
    for t, c4, c6 in gen_cidr():
        out.append(('is_valid_cidr', t, c4))
        out.append(('is_valid_ipv6_cidr', t, c6))
    for t, c in gen_mac():
        out.append(('is_valid_mac', t, c))
    for v, classes in gen_ints():
        for f, c in classes.items():
            out.append((f, v, c))
    valid = {'is_valid_ipv4': '10.1.2.3', 'is_valid_ipv6': 'fe80::1', 'is_valid_ip': '10.1.2.3',
             'is_valid_cidr': '10.0.0.0/8', 'is_valid_ipv6_cidr': '2600::/64',
             'is_valid_mac': 'aa:bb:cc:dd:ee:ff'}
    for f in ADDR_FUNCS + ['is_valid_port', 'is_valid_icmp_type', 'is_valid_icmp_code']:
        for ch in PRINTABLE:
            out.append((f, ch, NOFAIL))
            out.append((f, ch * 3, NOFAIL))
            if f in valid:
                out.append((f, valid[f] + ch, NOFAIL))
                out.append((f, ch + valid[f], NOFAIL))
        for odd in (None, 10, 1.5, b'10.0.0.1', [], ('a',)):
            if f in valid and f != 'is_valid_mac':
                continue        # non-string arguments are outside the statement
        if f == 'is_valid_mac':
            for odd in (None, 10, b'aa:bb:cc:dd:ee:ff', []):
                out.append((f, odd, REJECT))
    # the same texts as instances of a str subclass (a sample: every 7th case)
    class Text(str):
        pass
    out += [(f, Text(a), c) for i, (f, a, c) in enumerate(list(out))
            if isinstance(a, str) and type(a) is str and i % 7 == 0]
    # de-duplicate
    seen, res = set(), []
    for c in out:
        k = (c[0], type(c[1]).__name__, repr(c[1]))
        if k not in seen:
            seen.add(k)
            res.append(c)
    return res


def run(ctx):
    rep = ctx.new_report()
    from vlib.ref import noise as _noise
    E.set_noise(_noise.netutils_noise())
    cs = cases(ctx)
    crosscheck(cs)
    E.run(rep, 'validators', [cs], _case)
    rep.sample({'call': "is_valid_ipv6('fe80::1%eeeeeeeeeeeeeeee')", 'class': REJECT})
    rep.sample({'call': "is_valid_cidr('10.0.0.0/8/8')", 'class': REJECT})
    rep.sample({'call': "is_valid_port('65535')", 'class': ACCEPT})
    rep.notes['rule'] = (
        'every generated (validator, argument) pair is one case; non-trivial = '
        'the reference classifies it ACCEPT or REJECT (NOFAIL cases only have '
        'to return); distinct by (function, argument).')
    rep.notes['bounds'] = {'ipv4_octet_spellings': OCTETS, 'ipv6_groups': GROUPS_OK + GROUPS_BAD,
                           'cidr_prefixes': PREFIXES, 'cases': len(cs)}
    return rep


def replay(payload):
    import ast
    try:
        arg = ast.literal_eval(payload['arg_repr'])
    except Exception:
        arg = payload['arg_repr']
    got = call(payload['func'], arg)
    cls = payload['class']
    bad = got[0] == 'raises' or (cls == ACCEPT and not got[1]) or (cls == REJECT and got[1])
    return {'violates': bool(bad), 'got': got, 'class': cls}
