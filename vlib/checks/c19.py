"""C19 - path and list splitting honour their contracts for every input.

Engine C: split_path over every path of 0..5(7) segments from a 4-letter
segment alphabet x leading/trailing slash x minsegs x maxsegs x rest_with_last
against a reference written from the statement; split_by_commas as the inverse
of a reference quoting/joining function over every item list of length 1..3(4),
plus malformed quoting patterns.
"""
import itertools

from vlib.mc import enum as E

PROPERTY = 'C19'
LEVEL = 'model_checking'
ENGINE = 'C'
TECHNIQUE = ('stateless bounded model checking: complete enumeration of path shapes x parameters and of '
             'item lists against reference split / quote-join functions')
LEVEL_TEXT = ('Every path built from 0..5 (7 thorough) segments over {plain, '
              'empty, dotted, spaced} with and without leading and trailing '
              'slash is split with every (minsegs 1..4, maxsegs in {None, 0, '
              'min-1..min+2, 9, 10, 17, 64}, rest_with_last) and compared - result list or '
              'ValueError - with a reference; every list of 1..3 (4) items '
              'over an alphabet containing commas, quotes, backslashes, '
              'leading/trailing blanks and the empty string is quoted, joined '
              'and must be recovered exactly by split_by_commas; malformed '
              'quoting must raise ValueError.')
LEVEL_NOTE = ('Trusted: the reference split (vlib/checks/c19.py ref_split_path) '
              'and the quoting convention (double quotes with backslash '
              'escapes for items containing commas, quotes, backslashes or '
              'spaces). Segment and item alphabets are the listed ones.')

SEGS = ['a', '', 'b.c', 'd e']
# text the error path may treat differently from the success path: non-ASCII, a lone
# surrogate (what os.fsdecode gives for an undecodable byte), percent and quote signs
SEGS_X = ['caf\u00e9', '\udce9x', '100%', 'q"\'', 'a%2Fb', '%41', 'x%20y%', '%2e%2e']
ITEMS = ['a', 'a b', 'a,b', 'a"b', 'a\\b', '', ' a', 'x, ', '"', 'ab\\', 'k=v', "it's",
         "'a'", "'a", "b'"]


def ref_split_path(path, minsegs, maxsegs, rest_with_last):
    """-> list or 'ValueError'"""
    if not maxsegs:
        maxsegs = minsegs
    if minsegs > maxsegs:
        return 'ValueError'
    if not path.startswith('/'):
        return 'ValueError'
    rest = path[1:]
    if rest_with_last:
        pieces = rest.split('/', maxsegs - 1) if maxsegs >= 1 else [rest]
    else:
        pieces = rest.split('/')
        if len(pieces) > maxsegs:
            if pieces[maxsegs:] != ['']:
                return 'ValueError'           # more than one trailing slash / extra data
            pieces = pieces[:maxsegs]
    if len(pieces) < minsegs:
        return 'ValueError'
    if any(p == '' for p in pieces[:minsegs]):
        return 'ValueError'
    return pieces + [None] * (maxsegs - len(pieces))


def _path_case(vals, acc):
    from oslo_utils import strutils
    segs, lead, trail, minsegs, dmax, rwl = vals
    path = ('/' if lead else '') + '/'.join(segs) + ('/' if trail else '')
    if dmax == 'none':
        maxsegs = None
    elif dmax == 'zero':
        maxsegs = 0
    elif isinstance(dmax, str):
        maxsegs = int(dmax[1:])           # '=10': an absolute value
        if maxsegs < minsegs:
            return
    else:
        maxsegs = minsegs + dmax
        if maxsegs < 0:
            return
    want = ref_split_path(path, minsegs, maxsegs, rwl)
    got = None
    for _ in (1, 2):          # asked twice: the answer must not depend on earlier calls
        prev = got
        try:
            got = strutils.split_path(path, minsegs, maxsegs, rwl)
        except ValueError:
            got = 'ValueError'
        except Exception as e:
            got = 'raises ' + type(e).__name__
    if prev != got:
        got = 'unstable: %r then %r' % (prev, got)
    elif isinstance(prev, list):
        prev.append('scribbled-by-the-first-caller')
        try:
            third = strutils.split_path(path, minsegs, maxsegs, rwl)
        except Exception as e:
            third = 'raises ' + type(e).__name__
        if third != want:
            got = 'result shared between calls: %r' % (third,)
    if want != 'ValueError':
        acc.nontrivial(repr((path, minsegs, maxsegs, rwl)))
    if got != want:
        acc.fail('split_path:%s' % ('rest_with_last' if rwl else 'strict'),
                 {'path': path, 'minsegs': minsegs, 'maxsegs': maxsegs, 'rest_with_last': rwl,
                  'got': got, 'want': want},
                 {'path': [path, minsegs, maxsegs, rwl]})


def quote(item):
    if item == '' or any(c in item for c in ',"\\ '):
        return '"' + item.replace('\\', '\\\\').replace('"', '\\"') + '"'
    return item


def _list_case(vals, acc):
    from oslo_utils import strutils
    items = list(vals[0])
    text = ','.join(quote(i) for i in items)
    acc.nontrivial(text)
    got = None
    for _ in (1, 2):
        prev = got
        try:
            got = strutils.split_by_commas(text)
        except Exception as e:
            got = 'raises ' + type(e).__name__
    if prev != got:
        got = 'unstable: %r then %r' % (prev, got)
    elif isinstance(prev, list):
        # what a caller does to the list it was handed must not reach the next caller
        prev.append('scribbled-by-the-first-caller')
        try:
            third = strutils.split_by_commas(text)
        except Exception as e:
            third = 'raises ' + type(e).__name__
        if third != items:
            got = 'result shared between calls: %r' % (third,)
    if got != items:
        acc.fail('split_by_commas', {'text': text, 'got': got, 'want': items}, {'list': items})


MALFORMED = ['"abc', 'abc"', 'a"b', 'a,,b', 'a,', ',a', '', ',', '"a"b', '"a""b"', 'a b', '"a\\',
             'a,"b', '"a",,"b"', ' ', 'a, ,b']


def run(ctx):
    rep = ctx.new_report()
    from vlib.ref import noise as _noise
    E.set_noise(_noise.strutils_noise())
    maxn = 7 if ctx.thorough else 5
    seglists = []
    for n in range(0, maxn + 1):
        seglists += list(itertools.product(SEGS, repeat=n))
    from vlib import lits
    extra_max = ['=%d' % w for v in lits.new('oslo_utils/strutils.py')['ints'] for w in (v, v + 1, v + 2)
                 if 4 < w <= 4096][:9]
    E.run(rep, 'split_path', [seglists, [True, False], [False, True], [1, 2, 3, 4],
                              ['none', 'zero', -1, 0, 1, 2, '=9', '=10', '=17', '=64'] + extra_max,
                              [False, True]],
          _path_case)
    xlists = []
    for n in range(1, 4 + 1):
        xlists += [t for t in itertools.product(SEGS[:3] + SEGS_X, repeat=n)
                   if any(x in SEGS_X for x in t)]
    E.run(rep, 'split_path_text', [xlists, [True, False], [False, True], [1, 2, 3],
                                   ['none', 0, 1, '=9'], [False, True]], _path_case)
    lists = []
    for n in (1, 2, 3) + ((4,) if ctx.thorough else ()):
        lists += list(itertools.product(ITEMS if n < 4 else ITEMS[:8], repeat=n))
    E.run(rep, 'split_by_commas', [lists], _list_case)
    # long lists (every item plain / every item quoted / alternating)
    longs = []
    for n in (50, 111, 112, 500, 2000):
        longs += [(tuple('i%d' % i for i in range(n)),), (tuple('a b%d' % i for i in range(n)),),
                  (tuple(('x,%d' % i) if i % 2 else 'y%d' % i for i in range(n)),)]
    E.run(rep, 'split_by_commas-long', [[x[0] for x in longs]], _list_case)
    from oslo_utils import strutils
    for bad in MALFORMED:
        rep.count('evaluations')
        rep.nontrivial('malformed' + bad)
        try:
            r = strutils.split_by_commas(bad)
            rep.fail('malformed-list-accepted', {'text': bad, 'got': r}, {'malformed': bad})
        except ValueError:
            pass
        except Exception as e:
            rep.fail('malformed-list-wrong-exception', {'text': bad, 'exception': type(e).__name__},
                     {'malformed': bad})
    rep.sample({'split_path': ['/a//o', 2, 3, True], 'want': 'ValueError'})
    rep.sample({'split_path': ['/a/c/o/', 3, 3, True], 'want': ['a', 'c', 'o/']})
    rep.sample({'split_by_commas': '" a","x, ",b', 'want': [' a', 'x, ', 'b']})
    rep.notes['rule'] = ('complete products; non-trivial = the reference returns a list (valid '
                         'path) resp. every item list; rejected paths are evaluated too (counted in '
                         'evaluations)')
    rep.notes['bounds'] = {'segments': SEGS, 'max_segments': maxn, 'minsegs': [1, 2, 3, 4],
                           'maxsegs': ['None', 0, 'min-1', 'min', 'min+1', 'min+2', 9, 10, 17, 64],
                           'text_segments': SEGS_X,
                           'items': ITEMS, 'max_items': 4 if ctx.thorough else 3}
    return rep


def replay(payload):
    from oslo_utils import strutils
    if 'path' in payload:
        path, mn, mx, rwl = payload['path']
        want = ref_split_path(path, mn, mx, rwl)
        try:
            got = strutils.split_path(path, mn, mx, rwl)
        except ValueError:
            got = 'ValueError'
        except Exception as e:
            got = 'raises ' + type(e).__name__
        return {'violates': got != want, 'got': got, 'want': want}
    if 'list' in payload:
        items = payload['list']
        text = ','.join(quote(i) for i in items)
        try:
            got = strutils.split_by_commas(text)
        except Exception as e:
            got = 'raises ' + type(e).__name__
        return {'violates': got != items, 'text': text, 'got': got}
    try:
        strutils.split_by_commas(payload['malformed'])
        return {'violates': True}
    except ValueError:
        return {'violates': False}
    except Exception:
        return {'violates': True}
