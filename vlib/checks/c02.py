"""C02 - the safety check is fail-closed.

Per format the full product of safe/unsafe trait values is built by the layout
builders. Every image is run (a) through Engine A on the bare inspector of its
format (all chunkings over a small cut set, oracle T3 at every terminal state),
(b) through detect_file_format + safety_check on a real file, (c) through
cli.main() in-process (exit status), and a fixed subset through the real
`python -m oslo_utils.imageutils -i FILE` subprocess.

Oracle (one-directional, from the statement): unsafe(traits) => never accepted,
exit status != 0; clean => accepted, exit 0; cli exit 0 <=> detection and
safety_check both succeeded in-process; an exception raised inside any check
counts as a failure of that check (fault enumeration over the checks).
"""
import io
import itertools
import os
import shutil
import subprocess
import sys
import tempfile
import time

from vlib import par
from vlib.checks.c01 import pack, unpack
from vlib.img import build as B
from vlib.ref import findings

PROPERTY = 'C02'
LEVEL = 'model_checking'
ENGINE = 'A+C'
TECHNIQUE = ('complete enumeration of safe/unsafe trait products per format; '
             'each image explored under all chunkings of a cut set on the real '
             'inspector, plus the file/CLI path; reference predicate from the '
             'layout builder')
LEVEL_TEXT = ('The whole product of the listed trait values (all 64 qcow2 '
              'feature bits and pairs, versions, backing offsets; VMDK '
              'createType spellings x descriptor line sequences x placement x '
              'footer perturbations; all MBR tables of the bounded family; '
              'LUKS versions; QED) is built and every image is checked under '
              'every chunking of its cut set, through detect_file_format and '
              'through the CLI: nothing unsafe is ever accepted, every clean '
              'image is; and no inspector of another format (signature absent) '
              'accepts the stream.')
LEVEL_NOTE = ('Trusted: the builders\' unsafe/clean classification (from the '
              'property statement). Images that are neither clean nor '
              'listed-unsafe carry no expectation. Irrelevant fields are '
              'seed-filled, not enumerated.')

_JOBS = []


# ---------------------------------------------------------------------------
# trait products -> recipes (kind, kwargs); built inside the workers

QCOW_VERSIONS = [0, 1, 2, 3, 4, 5, 1 << 31, (1 << 32) - 1]
QCOW_BACKING = [0, 1, 512, 1 << 32, 1 << 63, (1 << 64) - 1]

VMDK_CTYPES = [  # (spelling, class): 'ok' accepted type, 'bad' other type, 'na' no expectation
    ('monolithicSparse', 'ok'), ('MONOLITHICSPARSE', 'ok'), ('monolithicsparse', 'ok'),
    ('streamOptimized', 'ok'), ('STREAMOPTIMIZED', 'ok'), ('streamoptimized', 'ok'),
    ('monolithicFlat', 'bad'), ('twoGbMaxExtentSparse', 'bad'), ('vmfs', 'bad'),
    ('custom', 'bad'), ('', 'bad'), ('m' * 65, 'bad'),
]
# descriptor line classes: (text, class) class in safe / unsafe / na
VMDK_LINES = [
    ('# a comment', 'safe'), ('', 'safe'), ('ddb.toolsVersion = "2147483647"', 'safe'),
    ('encoding="UTF-8"', 'safe'),
    ('RW 16 SPARSE "extent1.vmdk"', 'safe'), ('RDONLY 16 SPARSE "extent2.vmdk"', 'safe'),
    ('NOACCESS 16 SPARSE "extent3.vmdk"', 'safe'),
    ('RW 16 FLAT "/etc/passwd" 0', 'unsafe'), ('RDONLY 16 FLAT "../../x.img" 0', 'unsafe'),
    ('RX 16 SPARSE "extent4.vmdk"', 'unsafe'), ('hello world', 'unsafe'),
    ('a b=c', 'unsafe'), ('RW 16 FLAT "C:\\\\x.img" 0', 'na'),
    # a path hidden behind an ASCII control character that some line splitters honour
    ('RW 16 FLAT "x\x0c#/../../etc/shadow" 0', 'unsafe'), ('RW 16 FLAT "x\rddb/etc/shadow" 0', 'unsafe'),
    ('RW 16 FLAT "x\x1cy=/etc/shadow" 0', 'unsafe'),
]
FOOTER_OVERS = [  # (perturbation, contradicts?)
    ({}, False),
    ({'version': 'other'}, True), ({'desc_sec': 2}, True), ({'desc_num': 3}, True),
    ({'sig': b'KDMW'}, True), ({'gd_offset': B.GD_AT_END}, True),
    ({'marker_size': 1}, True), ({'marker_type': 0}, True),
    ({'marker_pad': b'\x01'}, True), ({'eos_val': 1}, True),
    ({'eos_size': 1}, True), ({'eos_type': 3}, True), ({'eos_pad': b'\x01'}, True),
]
# relative perturbations of the footer's descriptor extent (for large descriptors)
FOOTER_REL = [({}, False), ({'desc_num': '+1'}, True), ({'desc_num': '-1'}, True),
              ({'desc_num': '+2048'}, True), ({'desc_sec': '+1'}, True)]
# descriptors that fill their sectors exactly (no NUL padding at all): the last line
FILL_LASTS = [('# end\n', 'safe'), ('# c', 'safe'), ('x', 'unsafe'), ('xy', 'unsafe'),
              ('RW 16 FLAT "/etc/passwd" 0', 'unsafe'), ('\xe9', 'undecodable'),
              ('createType="%s"', 'ctype-last')]
PTE_KINDS = ['EMPTY', 'GPT', 'GPT_BADCHS', 'GPT_BADLBA', 'LINUX', 'NTFS']
BOOT_FLAGS = [0x00, 0x80, 0x01, 0x7f]


def recipes(ctx):
    seed, full = ctx.seed, ctx.thorough
    out = []
    # ---- qcow2 ---------------------------------------------------------------
    feats = [0] + [1 << b for b in range(64)] + [(1 << 64) - 1]
    pair_bits = range(64) if full else [0, 1, 2, 3, 4, 5, 7, 8, 31, 32, 62, 63]
    feats += [(1 << a) | (1 << b) for a, b in itertools.combinations(pair_bits, 2)]
    for ver in QCOW_VERSIONS:
        for bo in QCOW_BACKING:
            for f in feats:
                out.append(('qcow2', dict(version=ver, backing_offset=bo, features=f)))
    # ---- VMDK: createType x line sequences -------------------------------------
    n_lines = len(VMDK_LINES)
    seqs2 = [()] + [(i,) for i in range(n_lines)] + list(itertools.product(range(n_lines), repeat=2))
    seqs3 = list(itertools.product(range(n_lines), repeat=3))
    for ci in range(len(VMDK_CTYPES)):
        for sq in seqs2:
            for base_extent in (True, False) if (len(sq) <= 1 or full) else (True,):
                out.append(('vmdk', dict(ctype=ci, lines=sq, base_extent=base_extent)))
    for ci in (0, 3) if not full else (0, 1, 3, 4):
        for sq in seqs3:
            out.append(('vmdk', dict(ctype=ci, lines=sq, base_extent=True)))
    # ---- VMDK: placement x sectors x version x footer ---------------------------
    for ds in (1, 0, 2):
        for dn in (0, 1, 2, 20):
            for ver in (0, 1, 2, 3, 4):
                for foot in (None, 0):
                    out.append(('vmdk', dict(ctype=0 if foot is None else 3, lines=(),
                                             base_extent=True, desc_sec=ds, desc_num=dn,
                                             version=ver, footer=foot)))
    for fi_ in range(len(FOOTER_OVERS)):
        for ver in (1, 2, 3):
            for flags in (3, 0x30001):
                for ci in (0, 3):
                    out.append(('vmdk', dict(ctype=ci, lines=(), base_extent=True,
                                             version=ver, footer=fi_, flags=flags)))
    # large descriptors (at and beyond the 1 MiB - 1 clamp) x relative footer perturbations
    for dn in (2047, 2048, 2049, 4096) if not full else (2046, 2047, 2048, 2049, 2050, 4096, 8192):
        for fr in range(len(FOOTER_REL)):
            out.append(('vmdk', dict(ctype=3, lines=(), base_extent=True, desc_num=dn, version=1,
                                     footer_rel=fr)))
    # descriptors that fill their sectors exactly
    for dn in (1, 2, 3):
        for ci in (0, 3, 6):
            for fl in range(len(FILL_LASTS)):
                for foot in (None, 0):
                    out.append(('vmdk', dict(ctype=ci, lines=(), base_extent=True, desc_num=dn,
                                             fill=fl, footer=foot)))
    # stale bytes behind the NUL that terminates the descriptor text (they are not descriptor)
    for sl in range(4):
        for ci in (0, 3, 6):
            for foot in (None, 0):
                out.append(('vmdk', dict(ctype=ci, lines=(), base_extent=True, desc_num=4, slack=sl,
                                         footer=foot)))
    # ---- MBR / GPT -----------------------------------------------------------------
    # every value of every byte of a partition entry (protective entry alone; Linux entry alone)
    for base in ('GPT', 'LINUX'):
        for j in range(16):
            for v in range(256):
                out.append(('mbr_sweep', dict(base=base, byte=j, val=v)))
    max_nd = 2 if full else 1
    for kinds in itertools.product(range(len(PTE_KINDS)), repeat=4):
        for flags in itertools.product(range(len(BOOT_FLAGS)), repeat=4):
            if sum(1 for f in flags if f != 0) > max_nd:
                continue
            out.append(('mbr', dict(kinds=kinds, flags=flags)))
    # ---- LUKS / QED / clean images of the other formats ------------------------
    for v in (0, 1, 2, 0xffff, 0x7fff, 0x8001):
        out.append(('luks', dict(version=v)))
    out.append(('qed', {}))
    for k in ('vhd', 'vdi', 'vhdx', 'iso', 'raw', 'qcow2v2', 'udf'):
        out.append((k, {}))
    # ---- truncations of clean images: never 'captured completely' -> never accepted ----
    for k in ('qcow2', 'qcow2v2', 'vhd', 'vdi', 'luks1', 'mbr-gpt', 'iso', 'udf', 'vhdx',
              'vmdk-plain', 'vmdk-footer'):
        for t in range(40):
            out.append(('trunc', dict(base=k, cut=t)))
    # F1 witness: text descriptor whose unsafe extent lies beyond the first reads
    out.append(('vmdk_text', dict(late=True)))
    out.append(('vmdk_text', dict(late=False)))
    return out


def build(kind, kw, seed):
    """-> (Image, format name, cut candidates)"""
    if kind == 'qcow2':
        im = B.qcow2(size=(seed % 97 + 1) << 20, length=512 + 8 * (seed % 5), seed=seed,
                     **kw)
        return im, 'qcow2', [8, 16, 72, 79, 80, 104, 511, 512]
    if kind == 'qcow2v2':
        return B.qcow2(version=2, length=512), 'qcow2', [8, 72, 511]
    if kind == 'vmdk':
        spelling, tclass = VMDK_CTYPES[kw['ctype']]
        lines = [VMDK_LINES[i] for i in kw['lines']]
        desc = B.vmdk_descriptor(ctype=spelling, extra_lines=[t for t, _ in lines],
                                 extent_line=None if kw['base_extent'] else '')
        foot = kw.get('footer')
        over, contradicts = ({}, False) if foot is None else FOOTER_OVERS[foot]
        over = dict(over)
        if over.get('version') == 'other':
            over['version'] = kw.get('version', 1) % 3 + 1
        desc_num = kw.get('desc_num', 2)
        desc_sec = kw.get('desc_sec', 1)
        if 'footer_rel' in kw:
            foot = 0
            over, contradicts = FOOTER_REL[kw['footer_rel']]
            over = {k: {'desc_num': desc_num, 'desc_sec': desc_sec}[k] + int(v) for k, v in over.items()}
        if 'slack' in kw:
            desc = desc + b'\x00' + [b'ddb.stale = "x"\nRW 16 FLAT "/etc/passwd" 0\n', b'caf\xc3\xa9 \xff\n',
                                     b'\xff', b'\x00\x00\x80hello world\n'][kw['slack']]
        fill_class = None
        if 'fill' in kw:
            last, fill_class = FILL_LASTS[kw['fill']]
            if fill_class == 'ctype-last':
                desc = B.vmdk_descriptor(ctype=spelling, ctype_line='# (type at the end)')
                last = last % spelling
            total = desc_num * 512
            lastb = last.encode('latin-1')
            need = total - len(desc) - len(lastb)
            if need < 0:
                return None, 'vmdk', []
            pad = b''
            while need > 0:
                k = min(need, 61)
                pad += b'#' * (k - 1) + b'\n'
                need -= k
            desc = desc + pad + lastb
            assert len(desc) == total and b'\x00' not in desc
        ver = kw.get('version', 1)
        head_flags = kw.get('flags', 3)
        im = B.vmdk(capacity_sectors=2048 + seed % 1000, version=ver, desc_sec=desc_sec,
                    desc_num=desc_num, descriptor=desc, footer=None if foot is None else 'good',
                    footer_over=over, grain_fill=64, seed=seed)
        if head_flags != 3:
            d = bytearray(im.data)
            d[8:12] = head_flags.to_bytes(4, 'little')
            if foot is not None:
                fs = len(d) - 1024
                d[fs + 8:fs + 12] = head_flags.to_bytes(4, 'little')
            im = im.derive(bytes(d), im.name)
        unsafe = set()
        if tclass == 'bad':
            unsafe.add('ctype')
        if any(c == 'unsafe' for _, c in lines):
            unsafe.add('line')
        has_extent = kw['base_extent'] or any(
            c == 'safe' and t.split(' ')[0] in ('RW', 'RDONLY', 'NOACCESS') for t, c in lines)
        has_any_extent = has_extent or any(t.split(' ')[0] in ('RW', 'RDONLY', 'NOACCESS')
                                           for t, _ in lines)
        if not has_any_extent:
            unsafe.add('no_extent')
        if desc_num == 0:
            unsafe.add('descriptor_missing')
        if desc_sec != 1:
            unsafe.add('descriptor_misplaced')
        if ver not in (1, 2, 3):
            unsafe.add('version')
        if contradicts:
            unsafe.add('footer')
        if fill_class == 'unsafe':
            unsafe.add('line')
        if fill_class == 'undecodable':
            unsafe.add('descriptor_missing')
        fits = desc_num * 512 >= len(desc)
        na = any(c == 'na' for _, c in lines)
        clean = (not unsafe and fits and not na and has_extent)
        im.unsafe, im.clean = unsafe, clean
        # a truncated descriptor, or one holding an 'na' line, carries no
        # expectation unless an unsafe trait is present that truncation cannot hide
        if not fits and desc_num != 0:
            im.unsafe = unsafe & {'descriptor_misplaced', 'version', 'footer'}
        cuts = [4, 63, 64, 65, 511, 512, 513, 512 + len(desc), im.facts['desc_at'] + desc_num * 512,
                len(im.data) - 1536, len(im.data) - 512]
        return im, 'vmdk', cuts
    if kind == 'mbr_sweep':
        import struct
        p = dict(getattr(B, 'PTE_' + kw['base']))
        raw = bytearray(struct.pack('<B3BB3BII', p['boot'], *p['start'], p['ostype'], *p['end'],
                                    p['lba'], p['size']))
        raw[kw['byte']] = kw['val']
        f = struct.unpack('<B3BB3BII', bytes(raw))
        pte = dict(boot=f[0], start=tuple(f[1:4]), ostype=f[4], end=tuple(f[5:8]), lba=f[8], size=f[9])
        im = B.mbr([pte], length=1024, boot_code=B.filler(seed, 14, 3))
        return im, 'gpt', [446, 511]
    if kind == 'mbr':
        ptes = []
        for k, f in zip(kw['kinds'], kw['flags']):
            p = dict(getattr(B, 'PTE_' + PTE_KINDS[k]))
            p['boot'] = BOOT_FLAGS[f]
            ptes.append(p)
        im = B.mbr(ptes, length=512 + (seed % 3) * 512, boot_code=B.filler(seed, 14, 3))
        return im, 'gpt', [446, 510, 511]
    if kind == 'luks':
        return B.luks(version=kw['version'], payload_sectors=8, length=8192), 'luks', [6, 8, 591, 592]
    if kind == 'qed':
        return B.qed(), 'qed', [4, 511, 512]
    if kind == 'vhd':
        return B.vhd(), 'vhd', [8, 511, 512]
    if kind == 'vdi':
        return B.vdi(), 'vdi', [0x40, 511, 512]
    if kind == 'vhdx':
        im = B.vhdx(size=5 << 30)
        return im, 'vhdx', [32, 196608, 262144, 262144 + 64, 327680, 327688]
    if kind == 'iso':
        return B.iso(), 'iso', [32768, 34815, 34816]
    if kind == 'udf':
        return B.iso(ident=b'NSR03'), 'iso', [32768, 34816]
    if kind == 'raw':
        return B.raw('random', 5000, seed), 'raw', [512, 4096]
    if kind == 'trunc':
        base = kw['base']
        if base == 'qcow2':
            im, fmt, need = B.qcow2(length=1024), 'qcow2', 512
        elif base == 'qcow2v2':
            im, fmt, need = B.qcow2(version=2, length=600), 'qcow2', 512
        elif base == 'vhd':
            im, fmt, need = B.vhd(), 'vhd', 512
        elif base == 'vdi':
            im, fmt, need = B.vdi(), 'vdi', 512
        elif base == 'luks1':
            im, fmt, need = B.luks(version=1, payload_sectors=1, length=2048), 'luks', 592
        elif base == 'mbr-gpt':
            im, fmt, need = B.mbr([B.PTE_GPT]), 'gpt', 512
        elif base == 'iso':
            im, fmt, need = B.iso(), 'iso', B.ISO_END
        elif base == 'udf':
            im, fmt, need = B.iso(ident=b'NSR02'), 'iso', B.ISO_END
        elif base == 'vhdx':
            im = B.vhdx(size=1 << 30)
            fmt, need = 'vhdx', im.size_end
        elif base == 'vmdk-plain':
            im = B.vmdk(desc_num=2, grain_fill=300)
            fmt, need = 'vmdk', im.size_end
        else:
            im = B.vmdk(desc_num=2, grain_fill=300, footer='good', ctype='streamOptimized')
            fmt, need = 'vmdk', len(im.data)
        pts = sorted({x for b in list(im.bounds) + [need, len(im.data)] for x in (b - 1, b, b + 1)
                      if 0 <= x <= len(im.data)})
        if kw['cut'] >= len(pts):
            return None, fmt, []
        t = pts[kw['cut']]
        d = im.data[:t]
        tim = B.Image(fmt, d, name='%s|%d' % (base, t), bounds=im.bounds)
        if t < need:
            tim.unsafe = {'truncated'}
            tim.clean = False
        else:
            tim.clean = True
        tim.facts['truncated'] = True
        cuts = [c for c in (4, 64, 511, 512, 592, need - 1, need, t - 1) if 0 < c < t]
        return tim, fmt, sorted(set(cuts))
    if kind == 'vmdk_text':
        head = b'# Disk DescriptorFile\nversion=1\ncreateType="monolithicSparse"\nRW 16 SPARSE "a.vmdk"\n'
        pad = b'# padding comment line ..............................\n' * (90 if kw['late'] else 1)
        d = head + pad + b'RW 16 FLAT "/etc/passwd" 0\n'
        im = B.Image('vmdk', d, name='vmdk-text-unsafe-%s' % ('late' if kw['late'] else 'early'),
                     unsafe={'line'}, bounds=[4, 64, 512], unsafe_from=len(head + pad))
        return im, 'vmdk', [4, len(head), 4096]
    raise ValueError(kind)


# ---------------------------------------------------------------------------

def cli_exit(path):
    """cli.main() in-process; an uncaught exception is what the interpreter
    would turn into exit status 1."""
    from oslo_utils.imageutils import cli
    old_argv, old_out, old_err = sys.argv, sys.stdout, sys.stderr
    sys.argv = ['oslo.utils.imageutils', '-i', path]
    sys.stdout = sys.stderr = io.StringIO()
    try:
        cli.main()
        return 0, None
    except SystemExit as e:
        code = e.code
        return (0 if code is None else code if isinstance(code, int) else 1), None
    except Exception as e:
        return 1, type(e).__name__
    finally:
        sys.argv, sys.stdout, sys.stderr = old_argv, old_out, old_err


def library_path(path):
    from oslo_utils.imageutils import format_inspector as fi
    from vlib.mc import stream as S
    try:
        insp = fi.detect_file_format(path)
    except Exception as e:
        return ('detect-raises', type(e).__name__), None
    return S.safety_outcome(insp), str(insp)


FOREIGN = ['qcow2', 'vhd', 'vhdx', 'vmdk', 'vdi', 'qed', 'iso', 'gpt', 'luks']


def sig_present(data):
    from vlib.checks.c03 import sig_present as sp
    return sp(data)


def foreign_verdict(name, data):
    """safety_check() of the named format's inspector after the whole stream: 'ok' when it
    returns normally, else the exception class (from feeding or from the check)."""
    from oslo_utils.imageutils import format_inspector as fi
    try:
        insp = fi.get_inspector(name)()
        insp.eat_chunk(data)
        insp.finish()
        insp.safety_check()
        return 'ok'
    except Exception as e:
        return type(e).__name__


def truncated_flag(im):
    return bool(im.facts.get('truncated'))


def f1_explains(im, via, path):
    start = im.facts.get('unsafe_from')
    if start is None:
        return False
    if via == 'inspector' and path:
        first = next((x for x in path if isinstance(x, int) and x >= 4), len(im.data))
    elif via in ('file', 'subprocess'):
        first = min(4096, len(im.data))
    else:
        return False
    return first <= start


def _batch(job):
    lo, hi, seed, tmpdir = job
    from vlib.mc import stream as S
    out = {'images': 0, 'states': 0, 'transitions': 0, 'comparisons': 0,
           'unsafe': 0, 'clean': 0, 'neither': 0, 'problems': [], 'outcomes': {},
           'cli_runs': 0, 'ms': 0}
    t0 = time.time()
    path = os.path.join(tmpdir, 'img-%d-%d' % (os.getpid(), lo))
    for n in range(lo, hi):
        kind, kw = _JOBS[n]
        im, fmt, cuts = build(kind, kw, seed)
        if im is None:
            continue
        data = im.data
        out['images'] += 1
        truncated = bool(im.facts.get('truncated'))
        cls = 'unsafe' if im.unsafe else 'clean' if im.clean else 'neither'
        out[cls] += 1
        f1 = fmt == 'vmdk' and findings.f1_vmdk_text(data)

        def problem(what, detail, extra=None):
            if len(out['problems']) < 12:
                p = {'what': what, 'kind': kind, 'kw': kw, 'fmt': fmt, 'detail': detail,
                     'image': pack(data), 'unsafe': sorted(im.unsafe), 'clean': im.clean,
                     'sigs': []}
                p.update(extra or {})
                # F1 is the finding "only the bytes of the first read are examined": it explains an
                # acceptance only if the unsafe content starts beyond the first chunk of >= 4 bytes
                if f1 and what == 'unsafe-accepted' and f1_explains(im, p.get('via'), p.get('path')):
                    p['sigs'] = ['F1-vmdk-text-descriptor']
                out['problems'].append(p)
        # (a) Engine A on the bare inspector
        system = S.InspectorSystem(fmt)
        r = S.explore(system, data, [c for c in cuts if 0 < c < len(data)],
                      check_purity=False, check_regions=False)
        out['states'] += r.states
        out['transitions'] += r.transitions
        for v, pth in r.verdicts.items():
            out['comparisons'] += 1
            outcome = v[3] if len(v) == 4 else v
            okey = '%s:%s' % (fmt, outcome if isinstance(outcome, str) else outcome[0])
            out['outcomes'][okey] = out['outcomes'].get(okey, 0) + 1
            if im.unsafe and outcome == 'ok':
                problem('unsafe-accepted', {'path': list(pth)[-5:], 'via': 'inspector'},
                        {'path': list(pth), 'via': 'inspector'})
            if im.clean and outcome != 'ok':
                problem('clean-rejected', {'path': list(pth)[-5:], 'outcome': outcome,
                                           'via': 'inspector'},
                        {'path': list(pth), 'via': 'inspector'})
        # (a') the same bytes handed over as memoryview slices of one re-used buffer
        if (n % 4 == 0 or im.unsafe) and fmt != 'raw':
            tv, _tb = S.typed_run(fmt, data, [c for c in cuts if 0 < c < len(data)][:6], 'memoryview')
            out['comparisons'] += 1
            outcome = tv[3] if len(tv) == 4 else tv
            if im.unsafe and outcome == 'ok':
                problem('unsafe-accepted', {'via': 'inspector, memoryview chunks of a re-used buffer'},
                        {'via': 'typed'})
            if im.clean and outcome != 'ok' and not truncated_flag(im):
                problem('clean-rejected', {'via': 'inspector, memoryview chunks', 'outcome': outcome},
                        {'via': 'typed'})
        # (d) "matches the inspector's format": every *other* format's inspector, fed the whole
        # stream, must not accept it (whatever it raises) unless its own signature is there too
        for other in FOREIGN:
            if other == fmt or other in sig_present(data):
                continue
            out['comparisons'] += 1
            got = foreign_verdict(other, data)
            if got == 'ok':
                problem('mismatching-stream-accepted', {'inspector': other, 'via': 'foreign inspector'},
                        {'via': 'foreign', 'inspector': other})
        # (b) + (c): real file, detect_file_format + safety_check, CLI
        with open(path, 'wb') as f:
            f.write(data)
        lib, name = library_path(path)
        code, exc = cli_exit(path)
        out['cli_runs'] += 1
        out['comparisons'] += 2
        if truncated:
            # a truncated stream may legitimately be detected as something else
            # (raw); only the CLI/library agreement is demanded on the file path
            if (code == 0) != (lib == 'ok'):
                problem('cli-disagrees-with-library', {'lib': lib, 'cli_exit': code, 'exc': exc,
                                                       'detected': name}, {'via': 'file'})
            continue
        if im.unsafe and (lib == 'ok' or code == 0):
            problem('unsafe-accepted', {'via': 'file/cli', 'lib': lib, 'cli_exit': code,
                                        'detected': name}, {'via': 'file'})
        if im.clean and (lib != 'ok' or code != 0 or name != fmt):
            problem('clean-rejected', {'via': 'file/cli', 'lib': lib, 'cli_exit': code,
                                       'detected': name}, {'via': 'file'})
        if (code == 0) != (lib == 'ok'):
            problem('cli-disagrees-with-library', {'lib': lib, 'cli_exit': code, 'exc': exc,
                                                   'detected': name}, {'via': 'file'})
    try:
        os.unlink(path)
    except OSError:
        pass
    out['ms'] = int((time.time() - t0) * 1000)
    return out


def check_faults(rep):
    """An exception raised inside any registered check counts as a failure of
    that check; an inspector without checks cannot be constructed."""
    from oslo_utils.imageutils import format_inspector as fi
    from vlib.mc import stream as S
    clean = {'qcow2': B.qcow2().data, 'vhd': B.vhd().data, 'vdi': B.vdi().data,
             'vhdx': B.vhdx().data, 'iso': B.iso().data, 'raw': b'x' * 600,
             'gpt': B.mbr([B.PTE_GPT]).data, 'luks': B.luks(length=4096, payload_sectors=1).data,
             'vmdk': B.vmdk().data, 'qed': B.qed().data,
             'vmdk-footer': B.vmdk(footer='good', ctype='streamOptimized').data}
    for key, data in clean.items():
        fmt = key.split('-')[0]
        for exc in (KeyError, ValueError, RuntimeError, IndexError, MemoryError, OSError):
            proto = fi.ALL_FORMATS[fmt]()
            proto.eat_chunk(data)
            proto.finish()
            for name in list(S.checks_of(proto)):
                insp = S.clone_inspector(proto)

                def boom(_e=exc):
                    raise _e('injected')
                S.checks_of(insp)[name].target_fn = boom
                got = S.safety_outcome(insp)
                rep.count('evaluations')
                rep.count('fault_injections')
                rep.nontrivial('fault/%s/%s/%s' % (key, name, exc.__name__))
                if not (isinstance(got, tuple) and got[0] == 'fail' and name in got[1:]):
                    rep.fail('check-error-not-failure:%s' % fmt,
                             {'format': key, 'check': name, 'exception': exc.__name__,
                              'outcome': got},
                             {'fault': True, 'format': fmt, 'image': pack(data),
                              'check': name, 'exc': exc.__name__})
    rep.count('evaluations')
    try:
        class NoChecks(fi.FileInspector):
            NAME = 'nochecks'

            def _initialize(self):
                pass

            @property
            def format_match(self):
                return True
        NoChecks()
        rep.fail('inspector-without-checks', {'note': 'constructed'}, {'nochecks': True})
    except RuntimeError:
        pass


SUBPROCESS_SAMPLE = 40


def check_subprocess(rep, ctx, tmpdir):
    """Bind the in-process CLI result to the shipped entry point."""
    from vlib import repo
    step = max(1, len(_JOBS) // SUBPROCESS_SAMPLE)
    env = dict(os.environ, PYTHONPATH=repo.root())
    picks = list(range(0, len(_JOBS), step))[:SUBPROCESS_SAMPLE] + [len(_JOBS) - 2, len(_JOBS) - 12]
    procs = []
    for n in picks:
        kind, kw = _JOBS[n]
        im, fmt, cuts = build(kind, kw, ctx.seed)
        if im is None or im.facts.get('truncated'):
            continue
        path = os.path.join(tmpdir, 'sub-%d' % n)
        with open(path, 'wb') as f:
            f.write(im.data)
        p = subprocess.Popen([sys.executable, '-m', 'oslo_utils.imageutils', '-i', path],
                             env=env, stdout=subprocess.DEVNULL, stderr=subprocess.DEVNULL,
                             cwd=tmpdir)
        procs.append((n, im, path, p))
    for n, im, path, p in procs:
        rc = p.wait(timeout=120)
        code, _ = cli_exit(path)
        rep.count('evaluations')
        rep.count('subprocess_cli_runs')
        if (rc == 0) != (code == 0):
            rep.fail('subprocess-cli-differs', {'job': _JOBS[n], 'subprocess': rc, 'in_process': code},
                     {'subprocess': True, 'image': pack(im.data)})
        if im.unsafe and rc == 0:
            rep.fail('unsafe-accepted:subprocess', {'job': _JOBS[n]},
                     {'subprocess': True, 'image': pack(im.data)},
                     sigs=['F1-vmdk-text-descriptor'] if (findings.f1_vmdk_text(im.data) and
                                                          f1_explains(im, 'subprocess', None)) else [])


def run(ctx):
    global _JOBS
    from vlib.mc import stream as S    # noqa: F401
    rep = ctx.new_report()
    _JOBS = recipes(ctx)
    tmpdir = tempfile.mkdtemp(prefix='verif-c02-')
    try:
        n = len(_JOBS)
        nb = 16 * 12
        step = (n + nb - 1) // nb
        jobs = [(i, min(n, i + step), ctx.seed, tmpdir) for i in range(0, n, step)]
        for out in par.pmap(_batch, jobs):
            rep.count('images', out['images'])
            rep.count('evaluations', out['images'])
            rep.count('states', out['states'])
            rep.count('transitions', out['transitions'])
            rep.count('traces_validated_against_impl', out['comparisons'])
            rep.count('images_unsafe', out['unsafe'])
            rep.count('images_clean', out['clean'])
            rep.count('images_without_expectation', out['neither'])
            rep.count('cli_runs_in_process', out['cli_runs'])
            for k, v in out['outcomes'].items():
                rep.count('outcome:' + k, v)
            for p in out['problems']:
                rep.fail('%s:%s:%s' % (p['what'], p['fmt'], p.get('via', '')),
                         {'recipe': [p['kind'], p['kw']], 'unsafe_traits': p['unsafe'],
                          'clean': p['clean'], 'detail': p['detail']},
                         {'image': p['image'], 'fmt': p['fmt'], 'what': p['what'],
                          'via': p.get('via'), 'path': p.get('path'), 'inspector': p.get('inspector'),
                          'unsafe': p['unsafe'], 'clean': p['clean']},
                         sigs=p['sigs'])
        check_faults(rep)
        check_subprocess(rep, ctx, tmpdir)
    finally:
        shutil.rmtree(tmpdir, ignore_errors=True)
    for kind, kw in (_JOBS[0], _JOBS[len(_JOBS) // 3], _JOBS[-3]):
        rep.sample({'recipe': kind, 'traits': kw})
    # distinct non-trivial: images with an expectation
    for i in range(rep.counters['images_unsafe'] + rep.counters['images_clean']):
        rep.nontrivial('img%d' % i)
    rep.notes['rule'] = (
        'every element of the trait products is one image; each is explored '
        'under all subsets of its cut set on the bare inspector and run '
        'through detect_file_format+safety_check and cli.main on a real file. '
        'Non-trivial = the image carries an expectation (unsafe or clean); '
        'recipes are distinct by construction. Fault injections are counted '
        'per (format, check, exception class).')
    rep.notes['bounds'] = {
        'qcow2': {'versions': QCOW_VERSIONS, 'backing_offsets': QCOW_BACKING,
                  'feature_words': 'each single bit 0..63, all pairs from %s, 0, all-ones'
                  % ('all 64 bits' if ctx.thorough else 'a 12-bit subset')},
        'vmdk': {'ctypes': len(VMDK_CTYPES), 'line_classes': len(VMDK_LINES),
                 'max_sequence': 3, 'footer_perturbations': len(FOOTER_OVERS)},
        'mbr': {'pte_kinds': PTE_KINDS, 'boot_flags': BOOT_FLAGS,
                'max_non_default_boot_flags': 2 if ctx.thorough else 1}}
    rep.notes['assumptions'] = ['builder classification unsafe/clean follows the property statement']
    return rep


def replay(payload):
    from oslo_utils.imageutils import format_inspector as fi
    from vlib.mc import stream as S
    if payload.get('nochecks'):
        return {'violates': True}
    data = unpack(payload['image'])
    if payload.get('fault'):
        insp = fi.ALL_FORMATS[payload['format']]()
        insp.eat_chunk(data)
        insp.finish()
        exc = {'KeyError': KeyError, 'ValueError': ValueError, 'RuntimeError': RuntimeError,
               'IndexError': IndexError, 'MemoryError': MemoryError, 'OSError': OSError}[payload['exc']]

        def boom():
            raise exc('injected')
        S.checks_of(insp)[payload['check']].target_fn = boom
        got = S.safety_outcome(insp)
        return {'violates': not (isinstance(got, tuple) and got[0] == 'fail'), 'outcome': got}
    if payload.get('via') == 'foreign':
        got = foreign_verdict(payload['inspector'], data)
        return {'violates': got == 'ok', 'outcome': got, 'inspector': payload['inspector']}
    tmpdir = tempfile.mkdtemp(prefix='verif-c02-')
    try:
        path = os.path.join(tmpdir, 'img')
        with open(path, 'wb') as f:
            f.write(data)
        lib, name = library_path(path)
        code, exc = cli_exit(path)
        obs = {'library': lib, 'detected': name, 'cli_exit': code}
        if payload.get('subprocess'):
            return dict(obs, violates=True)
        if payload.get('via') == 'typed':
            tv, _tb = S.typed_run(payload['fmt'], data, [64, 512, 600], 'memoryview')
            outcome = tv[3] if len(tv) == 4 else tv
            bad = (payload['unsafe'] and outcome == 'ok') or (payload['clean'] and outcome != 'ok')
            return dict(obs, violates=bool(bad), typed_verdict=repr(tv))
        if payload.get('via') == 'inspector':
            system = S.InspectorSystem(payload['fmt'])
            obj, trace = S.replay_path(system, data, payload['path'])
            v = trace[-1].get('verdict')
            obs['inspector_verdict'] = v
            outcome = v[3] if v else None
            bad = (payload['unsafe'] and outcome == 'ok') or (payload['clean'] and outcome != 'ok')
            return dict(obs, violates=bool(bad))
        bad = ((payload['unsafe'] and (lib == 'ok' or code == 0)) or
               (payload['clean'] and (lib != 'ok' or code != 0)) or
               ((code == 0) != (lib == 'ok')))
        return dict(obs, violates=bool(bad))
    finally:
        shutil.rmtree(tmpdir, ignore_errors=True)
