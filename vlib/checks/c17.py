"""C17 - version helpers preserve ordering and PEP 440 semantics.

Engine C: every component tuple of length 1..4(5) over a boundary alphabet
(int/str/tuple conversions, round trip, order); every ordered pair of a PEP 440
version family x same_major for is_compatible; every conjunction of 1..3
comparisons over the six operators for VersionPredicate; malformed inputs.
"""
import itertools
import operator

import packaging.version

from vlib.mc import enum as E

PROPERTY = 'C17'
LEVEL = 'model_checking'
ENGINE = 'C'
TECHNIQUE = ('stateless bounded model checking: complete enumeration of component tuples, PEP 440 '
             'version pairs and predicate conjunctions against positional '
             'arithmetic and packaging.version ordering')
LEVEL_TEXT = ('All component tuples up to length 4 (5 thorough) over {0, 1, 9, 10, '
              '99, 100, 500, 998, 999, seed} and of length 5..7 over {0, 1, 17, 999} '
              'with non-zero head are converted '
              'str->int, tuple->int, int->str and compared with radix-1000 '
              'positional arithmetic (and with each other for order); all '
              'ordered pairs of 48 PEP 440 versions x same_major and all '
              'conjunctions of up to 3 comparisons x candidate versions are '
              'compared with packaging ordering; malformed inputs must raise '
              'ValueError - a fixed list asked first, and every one-blank insertion into '
              'every 1- and 2-comparison predicate asked after the well-formed one was built, '
              'classified by a reference grammar.')
LEVEL_NOTE = ('PEP 440 ordering itself is taken from packaging.version (the '
              'statement defines it that way). Components are the alphabet '
              'values, not all of 0..999.')

ALPHA = [0, 1, 9, 10, 99, 100, 500, 998, 999]
SUFFIXES = ['a1', 'alpha2', 'b3', 'beta4', 'rc5', 'rc0', 'a999']
VERSIONS = ['0', '0.1', '1', '1.0', '1.0.0', '1.0.1', '1.1', '1.7', '1.7.1', '1.10', '2', '2.0.0',
            '2.0.1', '10.0', '1.0a1', '1.0b2', '1.0rc1', '1.0rc2', '2.0.0rc2', '1.0.dev1',
            '1.0a1.dev2', '1.0.post1', '1.7.post1', '1.0.post1.dev3', '1!0.5', '1!1.0', '2!0.1',
            '0!1.0', '1.0+local', '1.0+abc.5', '1.7.0', '01.7', 'v1.7', '1.7-1', '1.0.0.0',
            '2.0.0.post2', '2.0.0.dev0', '3.0a0', '999.999', '1.0RC1', '1.0-rc1', '1.0.rc.1',
            '2.0b1', '2.0c1', '1.7.post0', '1.7.1.dev5', '0.0.1', '0.0',
            # release components beyond 999 (calendar versions, build numbers): PEP 440 has no radix
            '1.2', '1.1.1000', '1.1.20240101', '1.2.0', '2024.1', '2024.2', '1.1000', '1.999.1',
            '1000', '1.0.1000000', '1001.0']
OPS = {'<': operator.lt, '<=': operator.le, '==': operator.eq, '>': operator.gt,
       '>=': operator.ge, '!=': operator.ne}
PRED_VERSIONS = ['1.0', '1.7', '2.0.0', '1.7.post1', '2.0.0rc2', '1!0.1']
CANDIDATES = ['0.9', '1.0', '1.0.0', '1.0.1', '1.7', '1.7.post1', '1.7.1', '1.7rc1', '1.8', '2.0.0rc2',
              '2.0.0', '2.0.0.dev1', '2.0.1', '1.0a1', '1!0.0', '1!0.1', '1!0.2', '0.1', '1.7.0',
              '1.7.post0']
BAD_PREDICATES = ['', '>', '1.0', '>= ', '=> 1.0', '>=1.0,,<2', '~=1.0', '>=1.0 <2.0', '>=abc',
                  '>=1.0,', ',>=1.0', '= 1.0', '>=1.0;<2', '< 1 . 0']
BAD_VERSIONS = ['x', '1.x', '1.2.x3', '1..2', '', '1.2.', '.1', '1.2beta', '1.2rc', 'a.b.c',
                '1,2', '1.2-3', '1.2a1b',
                # a pre-release marker on a component that is not the last one
                '1.2rc1.3', '1a1.2', '1.0b2.0', '1rc1.0.0', '1.2alpha3.4', '1beta1.2rc3']


def _tuple_case(vals, acc):
    from oslo_utils import versionutils as V
    t = vals[0]
    s = '.'.join(map(str, t))
    want = 0
    for c in t:
        want = want * 1000 + c
    acc.nontrivial(s)
    p = {'tuple': list(t)}
    try:
        i1 = V.convert_version_to_int(s)
        i2 = V.convert_version_to_int(t)
        tt = V.convert_version_to_tuple(s)
        back = V.convert_version_to_str(want)
    except Exception as e:
        acc.fail('convert-raises', {'version': s, 'exception': type(e).__name__}, p)
        return
    if i1 != want or i2 != want or type(i1) is not int:
        acc.fail('convert_version_to_int', {'version': s, 'from_str': i1, 'from_tuple': i2,
                                            'want': want}, p)
    elif tt != t:
        acc.fail('convert_version_to_tuple', {'version': s, 'got': tt}, p)
    elif back != s:
        acc.fail('convert_version_to_str', {'int': want, 'got': back, 'want': s}, p)
    else:
        for suf in SUFFIXES:
            try:
                g = V.convert_version_to_int(s + suf)
                g2 = V.convert_version_to_tuple(s + suf)
            except Exception as e:
                g, g2 = ('raises', type(e).__name__), None
            if g != want or g2 != t:
                acc.fail('suffix-not-ignored', {'version': s + suf, 'got': g, 'want': want},
                         dict(p, suffix=suf))
                return


def _order_case(vals, acc):
    from oslo_utils import versionutils as V
    a, b = vals[0]
    acc.nontrivial(repr((a, b)))
    try:
        ia = V.convert_version_to_int('.'.join(map(str, a)))
        ib = V.convert_version_to_int(b)
    except Exception as e:
        acc.fail('order-raises', {'a': a, 'b': b, 'exception': type(e).__name__},
                 {'order': [list(a), list(b)]})
        return
    if (ia < ib) != (a < b) or (ia == ib) != (a == b):
        acc.fail('order', {'a': a, 'b': b, 'int_a': ia, 'int_b': ib}, {'order': [list(a), list(b)]})


def pv(s):
    try:
        return packaging.version.Version(s)
    except packaging.version.InvalidVersion:
        return None


def _compat_case(vals, acc):
    from oslo_utils import versionutils as V
    req, cur, same = vals
    r, c = pv(req), pv(cur)
    acc.nontrivial(repr(vals))
    try:
        got = ('ret', V.is_compatible(req, cur, same_major=same))
    except ValueError:
        got = ('ValueError',)
    except Exception as e:
        got = ('raises', type(e).__name__)
    if r is None or c is None:
        want = ('ValueError',)
    else:
        want = ('ret', (c >= r) and (not same or r.major == c.major))
    if got != want or (got[0] == 'ret' and not isinstance(got[1], bool)):
        acc.fail('is_compatible', {'requested': req, 'current': cur, 'same_major': same,
                                   'got': repr(got), 'want': repr(want)},
                 {'compat': [req, cur, same]})


def ref_parse_predicate(text):
    """-> list of (op, Version) or None if the predicate is malformed: comma-separated
    comparisons, each blanks, one of the six operators, blanks, a PEP 440 version
    without inner blanks, blanks."""
    out = []
    for part in text.split(','):
        part = part.strip(' \t\n\r\f\v')
        for op in ('<=', '>=', '!=', '==', '<', '>'):
            if part.startswith(op):
                break
        else:
            return None
        ver = part[len(op):].strip(' \t\n\r\f\v')
        if not ver or any(ch.isspace() for ch in ver) or pv(ver) is None:
            return None
        out.append((op, pv(ver)))
    return out


def _blank_insertions(text, acc):
    """After the well-formed predicate `text` has been built (so whatever the library
    remembers about it is in place), every string obtained from it by inserting one
    blank is classified by the reference grammar: still well-formed -> same answers;
    malformed -> ValueError."""
    from oslo_utils import versionutils as V
    for i in range(0, len(text) + 1):
        t2 = text[:i] + ' ' + text[i:]
        ref = ref_parse_predicate(t2)
        acc.counters['predicate_evaluations'] += 1
        try:
            pred = V.VersionPredicate(t2)
        except ValueError:
            pred = 'ValueError'
        except Exception as e:
            pred = 'raises ' + type(e).__name__
        if ref is None:
            if pred != 'ValueError':
                acc.fail('malformed-predicate-accepted-after-valid',
                         {'built_first': text, 'predicate': t2,
                          'got': pred if isinstance(pred, str) else 'accepted'},
                         {'after': text, 'badpred': t2})
                return
        else:
            if isinstance(pred, str):
                acc.fail('predicate-rejected', {'predicate': t2, 'exception': pred}, {'pred': t2})
                return
            for cand in CANDIDATES[::3]:
                want = all(OPS[op](pv(cand), v) for op, v in ref)
                try:
                    got = pred.satisfied_by(cand)
                except Exception as e:
                    got = ('raises', type(e).__name__)
                if got is not want:
                    acc.fail('satisfied_by', {'predicate': t2, 'candidate': cand, 'got': repr(got),
                                              'want': want}, {'pred': t2, 'cand': cand})
                    return


def _pred_case(vals, acc):
    from oslo_utils import versionutils as V
    items, spacing = vals
    text = ','.join((' %s %s ' if spacing else '%s%s') % (op, v) for op, v in items)
    acc.nontrivial(text)
    try:
        pred = V.VersionPredicate(text)
    except Exception as e:
        acc.fail('predicate-rejected', {'predicate': text, 'exception': type(e).__name__},
                 {'pred': text})
        return
    for cand in CANDIDATES:
        want = all(OPS[op](pv(cand), pv(v)) for op, v in items)
        try:
            got = pred.satisfied_by(cand)
        except Exception as e:
            got = ('raises', type(e).__name__)
        acc.counters['predicate_evaluations'] += 1
        if got is not want:
            acc.fail('satisfied_by', {'predicate': text, 'candidate': cand, 'got': repr(got),
                                      'want': want}, {'pred': text, 'cand': cand})
            return
    if not spacing and len(items) <= 2:
        _blank_insertions(text, acc)


def run(ctx):
    rep = ctx.new_report()
    from vlib.ref import noise as _noise
    E.set_noise(_noise.versionutils_noise())
    alpha = ALPHA + [500 + ctx.seed % 400]
    from vlib import lits
    alpha += [w for v in lits.new('oslo_utils/versionutils.py')['ints'] for w in (v - 1, v)
              if 0 <= w <= 999 and w not in alpha][:4]
    maxlen = 5 if ctx.thorough else 4
    tuples = []
    for n in range(1, maxlen + 1):
        for t in itertools.product(alpha, repeat=n):
            if t[0] != 0:
                tuples.append(t)
    # longer versions over a smaller alphabet: 6 and 7 components make integers beyond 2^53
    for n, al in ((5, [0, 1, 17, 999]), (6, [0, 1, 17, 999]), (7, [0, 17, 999])):
        if n <= maxlen:
            continue
        for t in itertools.product(al if ctx.thorough or n < 7 else al, repeat=n):
            if t[0] != 0:
                tuples.append(t)
    # very long versions (the statement bounds the components, not their number)
    for n in (40, 215, 1434, 1435, 3000):
        tuples.append((10,) + (0,) * (n - 1))
        tuples.append((999,) * n)
    E.run(rep, 'tuples', [tuples], _tuple_case)
    # order: all pairs of equal length (lengths 1..3 completely)
    pairs = []
    for n in (1, 2, 3):
        ts = [t for t in tuples if len(t) == n]
        if n == 3 and not ctx.thorough:
            ts = ts[::7]
        pairs += [(a, b) for a in ts for b in ts]
    E.run(rep, 'order', [pairs], _order_case)
    E.run(rep, 'is_compatible', [VERSIONS, VERSIONS, [True, False]], _compat_case)
    singles = [(op, v) for op in OPS for v in PRED_VERSIONS]
    conj = [(s,) for s in singles] + list(itertools.product(singles, repeat=2))
    trip = list(itertools.product(singles[::5], singles[1::4], singles[2::5])) if not ctx.thorough \
        else list(itertools.product(singles, singles[::2], singles[1::3]))
    E.run(rep, 'predicates', [conj + trip, [False, True]], _pred_case)
    from oslo_utils import versionutils as V
    for bad in BAD_PREDICATES:
        rep.count('evaluations')
        rep.nontrivial('badpred' + bad)
        try:
            V.VersionPredicate(bad)
            rep.fail('malformed-predicate-accepted', {'predicate': bad}, {'badpred': bad})
        except ValueError:
            pass
        except Exception as e:
            rep.fail('malformed-predicate-wrong-exception', {'predicate': bad,
                                                             'exception': type(e).__name__},
                     {'badpred': bad})
    for bad in BAD_VERSIONS:
        for fn in (V.convert_version_to_int,):
            rep.count('evaluations')
            rep.nontrivial('badver' + bad)
            try:
                r = fn(bad)
                rep.fail('non-numeric-component-accepted', {'version': bad, 'got': repr(r)},
                         {'badver': bad})
            except ValueError:
                pass
            except Exception as e:
                rep.fail('non-numeric-wrong-exception', {'version': bad, 'exception': type(e).__name__},
                         {'badver': bad})
    rep.count('evaluations', rep.counters.get('predicate_evaluations', 0))
    rep.sample({'version': '1.999.0', 'int': 1999000})
    rep.sample({'is_compatible': ['1.0', '1.0rc1', True], 'want': False})
    rep.sample({'predicate': '>1.7,<2.0.0', 'candidate': '1.7.post1', 'want': True})
    rep.notes['rule'] = ('complete products; tuples distinct by value, version pairs by (req, cur, '
                         'same_major), predicates by text; each predicate is evaluated on all '
                         '%d candidates' % len(CANDIDATES))
    rep.notes['bounds'] = {'components': alpha, 'max_tuple_length': maxlen, 'versions': len(VERSIONS),
                           'predicate_versions': PRED_VERSIONS, 'candidates': CANDIDATES}
    return rep


def replay(payload):
    from oslo_utils import versionutils as V
    acc = _Acc()
    if 'tuple' in payload:
        _tuple_case((tuple(payload['tuple']),), acc)
    elif 'order' in payload:
        a, b = payload['order']
        _order_case(((tuple(a), tuple(b)),), acc)
    elif 'compat' in payload:
        _compat_case(tuple(payload['compat']), acc)
    elif 'pred' in payload:
        ref = ref_parse_predicate(payload['pred'])
        try:
            pred = V.VersionPredicate(payload['pred'])
        except Exception as e:
            return {'violates': True, 'rejected': type(e).__name__}
        for cand in ([payload['cand']] if 'cand' in payload else CANDIDATES):
            want = all(OPS[op](pv(cand), v) for op, v in ref)
            try:
                got = pred.satisfied_by(cand)
            except Exception as e:
                got = ('raises', type(e).__name__)
            if got is not want:
                return {'violates': True, 'candidate': cand, 'got': repr(got), 'want': want}
        return {'violates': False}
    elif 'after' in payload:
        try:
            V.VersionPredicate(payload['after'])
        except Exception:
            pass
        try:
            V.VersionPredicate(payload['badpred'])
            return {'violates': True}
        except ValueError:
            return {'violates': False}
        except Exception:
            return {'violates': True}
    elif 'badpred' in payload:
        try:
            V.VersionPredicate(payload['badpred'])
            return {'violates': True}
        except ValueError:
            return {'violates': False}
        except Exception:
            return {'violates': True}
    else:
        try:
            V.convert_version_to_int(payload['badver'])
            return {'violates': True}
        except ValueError:
            return {'violates': False}
        except Exception:
            return {'violates': True}
    return {'violates': bool(acc.fails), 'problems': acc.fails}


class _Acc:
    def __init__(self):
        import collections
        self.fails = []
        self.counters = collections.Counter()

    def fail(self, cls, summary, payload, sigs=()):
        self.fails.append({'class': cls, 'summary': summary})

    def count(self, *a):
        pass

    def nontrivial(self, *a):
        pass
