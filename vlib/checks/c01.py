"""C01 - the inspection verdict depends on the bytes only, never on the chunking.

Engine A over (a) every inspector class and the InspectWrapper on a family of
streams (well-formed images of all formats, field-mutated, truncated, extended,
polyglot, unstructured), all subsets of a cut-candidate set (all byte positions
for small streams in the thorough tier), empty chunks and read-only queries in
every state; (b) the capture engine in isolation (Engine A-mini): every stream
up to a small length over a tiny alphabet x every one of its chunkings.

Oracle: purely differential - all terminal verdicts of one byte string are
equal (T1); region bytes == stream bytes in every state (I1); queries are pure
(I4). No reference parser decides what the verdict should be.
"""
import base64
import time
import zlib

from vlib import par
from vlib.img import build as B
from vlib.img import family as F
from vlib.ref import findings

PROPERTY = 'C01'
LEVEL = 'model_checking'
ENGINE = 'A'
TECHNIQUE = ('explicit-state exploration of the real inspector/wrapper objects '
             'over all chunkings (subsets of a cut set; all positions for small '
             'streams), exact state merging, differential terminal oracle')
LEVEL_TEXT = ('For every stream of the family and every inspector (and the wrapper, read both '
'with exact-size reads and with fixed-size reads that the source answers short '
'or empty), all 2^|C| ways of cutting the stream at the candidate positions C - '
'with empty chunks and read-only queries in every reachable state - are '
'explored on the real objects and must end in one and the same verdict; '
'retained region bytes are compared with the stream in every state; the witness '
'path is run again without any intermediate query (I9), with re-used bytearray '
'/ memoryview chunks (I8), and pairs of objects are interleaved (I7). For the '
'capture engine every stream up to length 6/8 over a 5/6-letter alphabet is '
'explored under every one of its chunkings.')
LEVEL_NOTE = ('Bounded: streams are the generated family (not all byte '
              'strings); for streams above ~1.5 KiB chunkings are all subsets '
              'of the printed candidate set rather than all positions '
              '(cross-checked on small streams). State merging relies on '
              'determinism of eat_chunk/finish (replayed twice on failure).')

ALL = ['raw', 'qcow2', 'vhd', 'vhdx', 'vmdk', 'vdi', 'qed', 'iso', 'gpt', 'luks']
GENERIC_POINTS = [4, 6, 32, 64, 108, 512, 592, 1536, 32768, 34816, 196608,
                  196624, 262144]
CAPS_QUICK = {'own': 52, 'own-vmdk': 34, 'vmdk-foreign': 32, 'foreign': 24,
              'wrapper': 16, 'wrapper-short': 5}
CAPS_THOROUGH = {'own': 80, 'own-vmdk': 64, 'vmdk-foreign': 48, 'foreign': 32,
                 'wrapper': 28, 'wrapper-short': 14}
WRAP_BASE = {3, 4, 5, 63, 64, 65, 511, 512, 513, 591, 592, 593}

_IMAGES = []


def pack(data):
    return base64.b64encode(zlib.compress(data, 6)).decode()


def unpack(s):
    return zlib.decompress(base64.b64decode(s))


# ---------------------------------------------------------------------------
# stream family

def vhdx_variants(seed, full):
    out = [
        B.vhdx(size=1 << 20, meta_offset=0x3FFFF),                    # first forward offset
        B.vhdx(size=1 << 20, meta_offset=0x3FFFE),                    # F2 witness (backward by one)
        B.vhdx(size=1 << 20, meta_offset=200 * 1024),                 # metadata inside the header area
        B.vhdx(size=1 << 20, item_offset=32 + 32 * 2 - 1),            # first forward item offset (2 items)
        B.vhdx(size=1 << 20, item_offset=32 + 32 * 2 - 2),            # F2 witness
        B.vhdx(size=1 << 20, item_offset=40),                         # item inside the table
        B.vhdx(size=1 << 20, region_sig=b'xegi'),
        B.vhdx(size=1 << 20, meta_sig=b'metadatb'),
        B.vhdx(size=1 << 20, region_count=2048),
        B.vhdx(size=1 << 20, region_count=2047),
        B.vhdx(size=1 << 20, meta_count=2048),
        B.vhdx(size=1 << 20, meta_count=2047),
        B.vhdx(size=1 << 20, meta_count=0),
        B.vhdx(size=1 << 20, region_count=0),
        B.vhdx(size=1 << 20, item_length=4),
        B.vhdx(size=1 << 20, item_length=0),
        B.vhdx(size=1 << 20, item_length=0xffffffff),
        B.vhdx(size=1 << 20, with_vds_entry=False),
        B.vhdx(size=1 << 20, with_meta_entry=False),
        B.vhdx(size=1 << 20, ident=b'vhdxfilf'),
        B.vhdx(size=1 << 20, meta_offset=1 << 62),
    ]
    if full:
        out += [B.vhdx(size=3, pad_regions_before=2045, pad_regions_after=1),
                B.vhdx(size=3, pad_items_before=2045, pad_items_after=1,
                       item_offset=65536 + 8),
                B.vhdx(size=3, meta_offset=(2 << 20) + 4096)]
    for i, im in enumerate(out):
        im.name = 'vhdx-var%d' % i
    return out


def vmdk_variants(seed, full):
    D = B.vmdk_descriptor
    out = [
        B.vmdk(version=0), B.vmdk(version=4), B.vmdk(version=3),
        B.vmdk(desc_sec=0), B.vmdk(desc_sec=2), B.vmdk(desc_num=0),
        B.vmdk(desc_num=1), B.vmdk(desc_num=2049, grain_fill=0),
        B.vmdk(descriptor=D() [:-1] + b'\xe9\n'),                    # undecodable descriptor
        B.vmdk(descriptor=D(ctype='twoGbMaxExtentSparse')),
        B.vmdk(descriptor=D(ctype_line='createType="' + 'x' * 70 + '"')),
        B.vmdk(descriptor=D(ctype_line='')),
        B.vmdk(descriptor=D(extra_lines=['RW 1 FLAT "/etc/passwd" 0'])),
        B.vmdk(footer='good', footer_over={'version': 2}),
        B.vmdk(footer='good', footer_over={'gd_offset': B.GD_AT_END}),
        B.vmdk(footer='good', footer_over={'eos_val': 1}),
        B.vmdk(footer='good', footer_over={'marker_type': 0}),
    ]
    # F3 witnesses: GD_AT_END header on streams of 1535..1600 bytes
    base = B.vmdk(footer='good', desc_num=1, grain_fill=0).data
    for n in (1535, 1536, 1540, 1598, 1599, 1600):
        out.append(B.Image('vmdk', B.pad_to(base[:n], n), name='vmdk-gdatend-len%d' % n,
                           bounds=[64, 512, n - 1536 if n > 1536 else 1]))
    # short KDMV streams
    for n in (4, 5, 63, 64, 65, 511, 512, 513):
        out.append(B.Image('vmdk', B.vmdk().data[:n], name='vmdk-short%d' % n,
                           bounds=[4, 64, 512]))
    # text-descriptor mode (F1 witnesses and non-witnesses)
    out.append(B.vmdk_text(ctype='monolithicSparse'))
    out.append(B.vmdk_text(descriptor=D(ctype='monolithicFlat', extent_line='RW 1 FLAT "/etc/passwd" 0')))
    out.append(B.vmdk_text(descriptor=b'# just text\n' * 3 + b'createType="vmfs"\n', name='vmdk-text-short'))
    out.append(B.vmdk_text(descriptor=b'# ' + b'x' * 4200 + b'\ncreateType="monolithicSparse"\nRW 1 FLAT "/etc/passwd" 0\n',
                           name='vmdk-text-late-type'))
    for i, im in enumerate(out):
        im.name = 'vmdkvar%d-%s' % (i, im.name)
    return out


def family(ctx):
    seed, full = ctx.seed, ctx.thorough
    imgs = []
    wf = F.wellformed(seed, full)
    imgs += wf
    for im in wf:
        if im.fmt in ('qcow2', 'vhd', 'vdi', 'luks', 'gpt', 'qed'):
            imgs += F.field_mutations(im, seed)
            imgs += F.truncations(im)
        elif im.fmt == 'iso':
            imgs += F.field_mutations(im, seed, limit=None if full else 12)
            imgs += F.truncations(im, around=full)
        elif im.fmt == 'vmdk':
            imgs += F.field_mutations(im, seed)
            imgs += F.truncations(im, around=full)
        elif im.fmt == 'vhdx':
            muts = F.field_mutations(im, seed)
            imgs += muts if full else muts[::5]
            tr = F.truncations(im, around=False)
            imgs += tr if full else tr[::3]
        if im.fmt != 'vhdx' or full:
            imgs += F.extensions(im, seed)[: 3 if full else 1]
        # longer than the decision horizon of every other inspector (vhdx: 256 KiB), so that the
        # wrapper reports a decision while this format's inspector still has bytes to count
        if im.fmt in ('luks', 'qcow2', 'vhd', 'vdi', 'gpt', 'qed') and len(im.data) < 300 * 1024:
            imgs.append(im.derive(im.data + B.filler(seed, 300 * 1024 - len(im.data), 3),
                                  '%s+to300k' % im.name))
    imgs += vhdx_variants(seed, full)
    imgs += vmdk_variants(seed, full)
    imgs += F.polyglots(seed)
    imgs += F.unstructured(seed)
    # de-duplicate identical byte strings
    seen, out = set(), []
    for im in imgs:
        if im.data not in seen:
            seen.add(im.data)
            out.append(im)
    return out


INSPECTOR_POINTS = {
    'raw': [], 'qcow2': [512], 'qed': [512], 'vhd': [512], 'vdi': [512],
    'gpt': [512], 'luks': [6, 108, 592], 'iso': [32768, 34816],
    'vhdx': [32, 196608, 196624, 262144], 'vmdk': [4, 64, 512, 1536]}


def prioritized(L, maxn, *groups):
    """First maxn distinct positions in (0, L), taking the groups in priority
    order (within a group: as listed)."""
    out = []
    seen = set()
    for g in groups:
        for x in g:
            if 0 < x < L and x not in seen:
                seen.add(x)
                out.append(x)
                if len(out) >= maxn:
                    return sorted(out)
    return sorted(out)


def spread(xs, n):
    """n elements of xs, evenly spread (keeps first and last)."""
    xs = sorted(set(xs))
    if len(xs) <= n or n <= 0:
        return xs
    if n == 1:
        return [xs[len(xs) // 2]]
    return [xs[round(i * (len(xs) - 1) / (n - 1))] for i in range(n)]


def thin(cuts, keep, maxn):
    L = max(list(cuts) + [0]) + 1
    return prioritized(L, maxn, sorted(set(keep) & set(cuts)),
                       spread([c for c in cuts if c not in keep], maxn))


def cuts_for(S, system, im, seed, maxn):
    """Cut candidates, most relevant first: the stream's own structure
    boundaries, the decision points of the inspector(s) under exploration,
    +-1 of both, region boundaries the implementation creates in two pilot
    runs, then generic positions."""
    L = len(im.data)
    bounds = [b for b in im.bounds if 0 < b < L]
    if system.kind == 'wrapper':
        own = sorted(WRAP_BASE)
        # the decision horizons of the other inspectors (iso 34816, vhdx 262144) and one point
        # between the last horizon and the end: a decision exists there while bytes still arrive
        mine = [4, 64, 512, 592] + [x for x in (262144, (262144 + L) // 2, 34816, 196608)
                                    if 0 < x < L and (x != (262144 + L) // 2 or L > 262146)]
    else:
        mine = INSPECTOR_POINTS.get(system.name, [])
        own = []
    from vlib import lits
    mine = list(mine) + [w for v in lits.new('oslo_utils/imageutils/format_inspector.py')['ints']
                         for w in (v - 1, v, v + 1) if 0 < w < L][:12]
    budget_b = max(4, maxn // 2)
    g1 = spread(bounds, budget_b)
    g2 = list(mine)
    g3 = [x + d for x in g1[:max(2, maxn // 6)] + mine for d in (-1, 1)]
    g4 = own
    pilot = S.pilot_bounds(system, im.data, sorted(set(g1 + g2))) if system.kind != 'wrapper' else []
    g5 = spread(pilot, max(2, maxn // 6))
    g6 = [x + d for x in g1 for d in (-1, 1)]
    generic = S.cut_candidates(L, GENERIC_POINTS, seed=seed)
    g7 = spread(generic, maxn)
    return prioritized(L, maxn, g1, g2, g3, g4, g5, g6, g7)


def _explore_one(job):
    idx, sysname, mode, seed, thorough = job
    from vlib.mc import stream as S
    im = _IMAGES[idx]
    data = im.data
    system = S.make_system(sysname)
    if mode == 'all':
        cuts = list(range(1, len(data)))
    else:
        caps = CAPS_THOROUGH if thorough else CAPS_QUICK
        if sysname == 'wrapper-short':
            maxn = caps['wrapper-short']
        elif sysname == 'wrapper':
            maxn = caps['wrapper']
        elif sysname == im.fmt or (im.fmt == 'poly' and sysname in ('iso', 'qcow2')):
            maxn = caps['own-vmdk'] if sysname == 'vmdk' else caps['own']
        elif sysname == 'vmdk':
            maxn = caps['vmdk-foreign']
        else:
            maxn = caps['foreign']
        cuts = cuts_for(S, system, im, seed, maxn)
    t0 = time.time()
    r = S.explore(system, data, cuts)
    out = summarize(idx, sysname, mode, cuts, r)
    # chunk presentation: the same cuts (thinned) with a re-used bytearray / with
    # memoryview slices of a re-used read buffer must give the same verdict and
    # leave exactly the stream's bytes in every region
    # I9: the explorer asks every question in every state; a caller who only feeds the same
    # chunks and asks at the end must be told the same
    out['unobserved'] = None
    if len(r.verdicts) == 1:
        (v0, p0), = r.verdicts.items()
        try:
            _o, tr = S.replay_path(system, data, list(p0), queries=False, observe=False)
            last = tr[-1] if tr else {}
            vq = last.get('verdict', ('error', last.get('raised')))
        except Exception as e:
            vq = ('error', type(e).__name__)
        v0n = ('error', v0[1]) if isinstance(v0, tuple) and v0 and v0[0] in ('error', 'finish-error') else v0
        if repr(vq) != repr(v0n):
            out['unobserved'] = {'path': list(p0), 'explored': repr(v0), 'unobserved': repr(vq)}
    out['typed'] = []
    if mode == 'cand' and len(r.verdicts) == 1 and len(data) > 0 and sysname != 'wrapper-short':
        (v0, _p), = r.verdicts.items()
        tc = spread(cuts, 6)
        for kind in ('bytearray', 'memoryview'):
            tv, tbad = S.typed_run(sysname, data, tc, kind)
            out['typed'].append({'kind': kind, 'same': tv == v0, 'verdict': repr(tv),
                                 'expected': repr(v0), 'bad': tbad[:3], 'cuts': tc})
    out['ms'] = int((time.time() - t0) * 1000)
    return out


def summarize(idx, sysname, mode, cuts, r):
    return {'idx': idx, 'system': sysname, 'mode': mode, 'ncuts': len(cuts),
            'states': r.states, 'transitions': r.transitions,
            'comparisons': r.comparisons,
            'verdicts': [(v, list(p)) for v, p in r.verdicts.items()],
            'failures': r.failures, 'caps': r.caps,
            'multi': r.multi_state_positions, 'empty_changes': r.empty_changes}


# ---------------------------------------------------------------------------
# Engine A-mini: the capture engine in isolation

def mini_class():
    from oslo_utils.imageutils import format_inspector as fi

    class Mini(fi.FileInspector):
        """VHDX in miniature: h=[0,2) holds an absolute pointer and a length
        for region a; a's first byte is a pointer, relative to a, to a 1-byte
        region b; the last two bytes of the stream are captured too."""
        NAME = 'mini'

        def _initialize(self):
            self.new_region('h', fi.CaptureRegion(0, 2))
            self.new_region('tail', fi.EndCaptureRegion(2))
            self.add_safety_check(fi.SafetyCheck.null())

        def post_process(self):
            if self.region('h').complete and not self.has_region('a'):
                d = self.region('h').data
                self.new_region('a', fi.CaptureRegion(d[0], d[1]))
            elif (self.has_region('a') and self.region('a').complete and
                  self.region('a').data and not self.has_region('b')):
                self.new_region('b', fi.CaptureRegion(
                    self.region('a').offset + self.region('a').data[0], 1))

        @property
        def format_match(self):
            return self.region('h').data[:1] != b'\xff'

        @property
        def virtual_size(self):
            if self.has_region('b') and self.region('b').complete:
                return self.region('b').data[0] + 1000
            return 0
    return Mini


class MiniSystem:
    kind = 'inspector'
    name = 'mini'

    def __init__(self):
        from vlib.mc import stream as S
        self.S = S
        self.cls = mini_class()
        self.canon = S.canon_inspector
        self.verdict = S.verdict_inspector
        self.clone = S.clone_inspector

    def new(self, data):
        return self.cls()

    def feed(self, obj, data, p, q):
        obj.eat_chunk(data[p:q])

    def feed_empty(self, obj, data, p):
        obj.eat_chunk(b'')

    def finish(self, obj):
        obj.finish()

    def inspectors(self, obj):
        return [obj]

    def decision(self, obj):
        return None


def mini_forward(data):
    """Pointers are forward: each located region starts at or after the last
    byte of the structure naming it, so it is capturable under every chunking."""
    if len(data) < 2:
        return True
    a_off, a_len = data[0], data[1]
    if a_off < 1:
        return False
    a = data[a_off:a_off + a_len]
    if a_len == 0 or len(a) < a_len:
        return True          # a never completes with data: b is never located
    return a[0] >= a_len - 1


def _mini_job(job):
    alphabet, maxlen, lo, hi = job
    from vlib.mc import stream as S
    system = MiniSystem()
    k = len(alphabet)
    out = {'streams': 0, 'states': 0, 'transitions': 0, 'comparisons': 0,
           'forward': 0, 'problems': [], 'outcomes': set()}
    # enumerate stream indices lo..hi in the canonical order: by length, then
    # lexicographic
    idx = 0
    for n in range(0, maxlen + 1):
        total = k ** n
        if idx + total <= lo:
            idx += total
            continue
        for t in range(total):
            if idx < lo:
                idx += 1
                continue
            if idx >= hi:
                return out
            idx += 1
            digits, x = [], t
            for _ in range(n):
                digits.append(alphabet[x % k])
                x //= k
            data = bytes(reversed(digits))
            r = S.explore(system, data, list(range(1, n)))
            out['streams'] += 1
            out['states'] += r.states
            out['transitions'] += r.transitions
            out['comparisons'] += r.comparisons
            fwd = mini_forward(data)
            out['forward'] += fwd
            for v in r.verdicts:
                out['outcomes'].add(repr(v))
            if r.failures and len(out['problems']) < 10:
                out['problems'].append({'data': data.hex(), 'kind': r.failures[0]['inv'],
                                        'paths': [r.failures[0]['path']],
                                        'detail': r.failures[0]['detail']})
            elif fwd and len(r.verdicts) > 1 and len(out['problems']) < 10:
                vs = list(r.verdicts.items())
                out['problems'].append({'data': data.hex(), 'kind': 'T1-verdict-differs',
                                        'paths': [list(vs[0][1]), list(vs[1][1])],
                                        'detail': [repr(vs[0][0]), repr(vs[1][0])]})
    return out


def run_mini(ctx, rep):
    alphabet = [0, 1, 2, 3, 5] if not ctx.thorough else [0, 1, 2, 3, 4, 6]
    maxlen = 6 if not ctx.thorough else 8
    total = sum(len(alphabet) ** n for n in range(maxlen + 1))
    nparts = 64
    step = (total + nparts - 1) // nparts
    jobs = [(alphabet, maxlen, i * step, min(total, (i + 1) * step))
            for i in range(nparts) if i * step < total]
    outcomes = set()
    for out in par.pmap(_mini_job, jobs):
        rep.count('mini_streams', out['streams'])
        rep.count('mini_forward_streams', out['forward'])
        rep.count('states', out['states'])
        rep.count('transitions', out['transitions'])
        rep.count('traces_validated_against_impl', out['comparisons'])
        outcomes |= out['outcomes']
        for pr in out['problems']:
            rep.fail('mini:' + pr['kind'], {'stream': pr['data'], 'detail': pr['detail']},
                     {'mini': True, 'data_hex': pr['data'], 'paths': pr['paths'],
                      'kind': pr['kind']})
    rep.count('mini_distinct_verdicts', len(outcomes))
    rep.count('evaluations', rep.counters['mini_streams'])
    for o in outcomes:
        rep.nontrivial('mini-outcome:' + o)
    rep.notes['mini'] = {'alphabet': alphabet, 'max_len': maxlen, 'streams': total,
                         'chunkings': 'all 2^(n-1) (all positions are cuts), with empty chunks'}


# ---------------------------------------------------------------------------
# I7: instances are isolated from each other (no state shared through the class
# or the module): two objects fed alternately conclude what each concludes alone

def _chunks(data, cuts):
    pts = [0] + [c for c in cuts if 0 < c < len(data)] + [len(data)]
    return [data[a:b] for a, b in zip(pts, pts[1:])]


def _solo(system, data, cuts):
    obj = system.new(data)
    p = 0
    try:
        for c in _chunks(data, cuts):
            system.feed(obj, data, p, p + len(c))
            p += len(c)
        system.finish(obj)
        return system.verdict(obj)
    except Exception as e:
        return ('error', type(e).__name__)


def _interleaved(system, da, ca, db, cb, order):
    """order: tuple of 'a'/'b' steps (a merge of the two chunk sequences)."""
    oa, ob = system.new(da), system.new(db)
    cha, chb = _chunks(da, ca), _chunks(db, cb)
    pa = pb = ia = ib = 0
    ea = eb = None
    for who in order:
        if who == 'a':
            if ea is None:
                try:
                    system.feed(oa, da, pa, pa + len(cha[ia]))
                except Exception as e:
                    ea = ('error', type(e).__name__)
            pa += len(cha[ia])
            ia += 1
        else:
            if eb is None:
                try:
                    system.feed(ob, db, pb, pb + len(chb[ib]))
                except Exception as e:
                    eb = ('error', type(e).__name__)
            pb += len(chb[ib])
            ib += 1
    out = []
    for o, e in ((oa, ea), (ob, eb)):
        if e is not None:
            out.append(e)
            continue
        try:
            system.finish(o)
            out.append(system.verdict(o))
        except Exception as ex:
            out.append(('error', type(ex).__name__))
    return out


def _merges(na, nb):
    import itertools
    for pos in itertools.combinations(range(na + nb), na):
        yield tuple('a' if i in pos else 'b' for i in range(na + nb))


def isolation_pairs(seed):
    imgs = {im.name: im for im in F.wellformed(seed, False)}
    own = {'qcow2': ['qcow2-v3', 'qcow2-v2'], 'vhd': ['vhd'], 'vdi': ['vdi'], 'qed': ['qed'],
           'iso': ['iso'], 'gpt': ['gpt'], 'luks': ['luks-v1'], 'vmdk': ['vmdk', 'vmdk-footer'],
           'raw': ['raw-zeros-1024'], 'vhdx': ['vhdx']}
    others = [B.raw('zeros', 600).data, B.raw('random', 100, seed).data,
              B.qcow2(size=7 << 20, length=520).data]
    for sysname in ALL + ['wrapper']:
        firsts = []
        for k, names in own.items():
            if sysname in (k, 'wrapper'):
                firsts += [imgs[n].data for n in names if n in imgs]
        for da in firsts[:4] if sysname == 'wrapper' else firsts:
            for db in others:
                yield sysname, da, db


def _isolation_job(job):
    sysname, da, db = job
    from vlib.mc import stream as S
    system = S.make_system(sysname)
    ca = [64, 512] if len(da) < 100000 else [64, 262144]
    cb = [64, 512]
    sa = _solo(system, da, ca)
    sb = _solo(system, db, cb)
    na, nb = len(_chunks(da, ca)), len(_chunks(db, cb))
    out = {'runs': 0, 'problem': None}
    for order in _merges(na, nb):
        got = _interleaved(system, da, ca, db, cb, order)
        out['runs'] += 1
        if got != [sa, sb] and out['problem'] is None:
            out['problem'] = {'system': sysname, 'order': ''.join(order),
                              'solo': [repr(sa), repr(sb)], 'interleaved': [repr(g) for g in got],
                              'a': pack(da), 'b': pack(db), 'ca': ca, 'cb': cb}
    # and the first stream once more, alone, after everything else ran
    again = _solo(system, da, ca)
    if again != sa and out['problem'] is None:
        out['problem'] = {'system': sysname, 'order': 'a-alone-again',
                          'solo': [repr(sa)], 'interleaved': [repr(again)],
                          'a': pack(da), 'b': pack(db), 'ca': ca, 'cb': cb}
    return out


def run_isolation(ctx, rep):
    jobs = list(isolation_pairs(ctx.seed))
    for out in par.pmap(_isolation_job, jobs):
        rep.count('isolation_executions', out['runs'])
        rep.count('evaluations', out['runs'])
        rep.count('transitions', out['runs'] * 6)
        rep.count('traces_validated_against_impl', out['runs'])
        pr = out['problem']
        if pr:
            rep.fail('I7-instances-not-isolated:%s' % pr['system'],
                     {'system': pr['system'], 'schedule': pr['order'], 'alone': pr['solo'],
                      'interleaved': pr['interleaved']},
                     {'isolation': True, 'system': pr['system'], 'a': pr['a'], 'b': pr['b'],
                      'ca': pr['ca'], 'cb': pr['cb'], 'order': pr['order']})
    rep.notes['isolation'] = {'pairs': len(jobs), 'schedules_per_pair': 'all merges of the two chunk sequences (<= 20)'}


def run(ctx):
    global _IMAGES
    from vlib.mc import stream as S    # noqa: F401 (binds logging config before fork)
    rep = ctx.new_report()
    _IMAGES = family(ctx)
    jobs = []
    for idx, im in enumerate(_IMAGES):
        for sysname in ALL + ['wrapper', 'wrapper-short']:
            jobs.append((idx, sysname, 'cand', ctx.seed, ctx.thorough))
        # all byte positions as cuts: small streams, bare inspectors
        lim = 1536 if ctx.thorough else 130
        if 0 < len(im.data) <= lim:
            own = im.fmt if im.fmt in ALL else 'raw'
            for sysname in sorted({own, 'luks', 'gpt'} - {'vmdk'}):
                jobs.append((idx, sysname, 'all', ctx.seed, ctx.thorough))
            # the VMDK inspector has O(n) states per position on KDMV/text streams
            # (which chunk completed the header, how much of it arrived): all
            # positions only for short streams
            if len(im.data) <= (200 if ctx.thorough else 130):
                jobs.append((idx, 'vmdk', 'all', ctx.seed, ctx.thorough))
    # biggest first for load balance
    jobs.sort(key=lambda j: -len(_IMAGES[j[0]].data) * (3 if j[1] == 'wrapper' else 1))
    results = par.pmap(_explore_one, jobs)
    verdict_sets = {}
    witness = {}
    for r in results:
        im = _IMAGES[r['idx']]
        rep.count('states', r['states'])
        rep.count('transitions', r['transitions'])
        rep.count('traces_validated_against_impl', r['comparisons'])
        rep.count('explorations')
        rep.count('cpu_ms:%s:%s' % ('wrapper' if r['system'] == 'wrapper' else
                                    'own' if r['system'] == im.fmt else 'foreign',
                                    im.fmt), r['ms'])
        rep.count('evaluations')
        rep.count('empty_chunks_that_changed_state', r['empty_changes'])
        for c in r['caps']:
            rep.caps_hit.append('%s/%s: %s' % (im.name, r['system'], c))
        if r['multi'] or r['ncuts'] >= 2:
            rep.nontrivial('%s/%s/%s' % (im.name, r['system'], r['mode']))
        sigs = findings.c01_signatures(im.data, 'wrapper' if r['system'] == 'wrapper-short' else r['system'])
        base = {'image': pack(im.data), 'image_name': im.name,
                'system': r['system']}
        others = [f for f in r['failures'] if not f['inv'].startswith('I4')] or r.get('unobserved') \
            or len(r['verdicts']) > 1
        for f in r['failures']:
            if f['inv'].startswith('I4') and not others:
                # a query that changes hidden state (a cache) without any consequence for a
                # verdict is not a violation of the property: counted, not reported
                rep.count('queries_that_changed_hidden_state_without_consequence')
                continue
            rep.fail('%s:%s:%s' % (f['inv'], r['system'], im.fmt),
                     {'image': im.name, 'system': r['system'], 'path': f['path'][-6:],
                      'detail': f['detail']},
                     dict(base, kind=f['inv'], paths=[f['path']]),
                     sigs=[] if f['inv'].startswith('I1') else sigs)
        rep.count('unobserved_runs')
        if r.get('unobserved'):
            u = r['unobserved']
            rep.fail('I9-verdict-depends-on-intermediate-queries:%s:%s' % (r['system'], im.fmt),
                     {'image': im.name, 'system': r['system'], 'path': u['path'][-6:],
                      'asked_in_every_state': u['explored'], 'asked_only_at_the_end': u['unobserved']},
                     dict(base, kind='I9', paths=[u['path']]), sigs=sigs)
        for t in r.get('typed', []):
            rep.count('typed_runs')
            rep.count('traces_validated_against_impl')
            if not t['same'] or t['bad']:
                rep.fail('I8-chunk-container:%s:%s' % (t['kind'], r['system']),
                         {'image': im.name, 'system': r['system'], 'chunks_as': t['kind'],
                          'verdict': t['verdict'], 'verdict_with_bytes_chunks': t['expected'],
                          'region_problems': t['bad']},
                         dict(base, kind='I8', chunk_kind=t['kind'], cuts=t['cuts'],
                              expected=t['expected']),
                         sigs=sigs)
        vs = r['verdicts']
        key = (r['idx'], r['system'])
        verdict_sets.setdefault(key, {})[r['mode']] = {repr(v) for v, _ in vs}
        if r['mode'] == 'cand' and vs:
            witness[key] = vs[0][1]
        if len(vs) > 1:
            rep.fail('T1:%s:%s' % (r['system'], im.fmt),
                     {'image': im.name, 'system': r['system'],
                      'verdicts': [repr(v) for v, _ in vs][:4],
                      'paths': [p[-5:] for _, p in vs][:4]},
                     dict(base, kind='T1', paths=[p for _, p in vs[:2]]),
                     sigs=sigs)
        elif sigs:
            rep.count('signature_true_but_single_verdict')
    # how the source hands out the bytes (exact reads / short and empty reads) is chunking too
    for (idx, sysname), modes in sorted(verdict_sets.items()):
        if sysname != 'wrapper-short' or (idx, 'wrapper') not in verdict_sets:
            continue
        a, b = verdict_sets[(idx, 'wrapper')].get('cand', set()), modes.get('cand', set())
        rep.count('short_read_comparisons')
        if len(a) == 1 and len(b) == 1 and a != b:
            im = _IMAGES[idx]
            rep.fail('T1:wrapper-short-vs-exact-reads:%s' % im.fmt,
                     {'image': im.name, 'exact_reads': sorted(a), 'short_reads': sorted(b)},
                     {'image': pack(im.data), 'image_name': im.name, 'system': 'wrapper-short',
                      'kind': 'T1x', 'paths': [],
                      'path_exact': witness.get((idx, 'wrapper'), []),
                      'path_short': witness.get((idx, 'wrapper-short'), [])},
                     sigs=findings.c01_signatures(im.data, 'wrapper'))
    # abstraction check: candidate cuts and all positions see the same verdicts
    disagreements = []
    for key, modes in verdict_sets.items():
        if 'all' in modes and 'cand' in modes:
            rep.count('abstraction_checks')
            if len(modes['all']) == 1 and modes['all'] != modes['cand']:
                disagreements.append(key)
            if len(modes['all']) > 1 and len(modes['cand']) == 1:
                rep.count('abstraction_misses')
                rep.notes.setdefault('abstraction_misses', []).append(
                    _IMAGES[key[0]].name + '/' + key[1])
    run_mini(ctx, rep)
    run_isolation(ctx, rep)
    if disagreements:
        # Two complete explorations of the same (stream, inspector) came to
        # different single verdicts. With a deterministic, instance-local
        # implementation that is impossible; it is a symptom of state shared
        # between objects (reported by I7) - or of a broken harness.
        rep.count('abstraction_disagreements', len(disagreements))
        if not rep.violations:
            raise RuntimeError('candidate-cut abstraction disagrees with all-positions '
                               'run on %r and no oracle explains it' % (disagreements[:3],))
    rep.count('images', len(_IMAGES))
    for im in (_IMAGES[0], _IMAGES[len(_IMAGES) // 2], _IMAGES[-1]):
        rep.sample({'image': im.name, 'len': len(im.data),
                    'head_hex': im.data[:32].hex()})
    rep.notes['rule'] = (
        'one exploration = one (stream, system) pair: all subsets of the cut '
        'set (+ empty chunks, + queries in every state) on the real object. '
        'Non-trivial = the exploration had >= 2 cut positions (>= 4 chunkings) '
        'or reached a position in more than one state; counted once per '
        '(stream, system, mode). Engine A-mini outcomes are counted per '
        'distinct verdict.')
    rep.notes['bounds'] = {
        'systems': ALL + ['wrapper', 'wrapper-short (the source answers a fixed-size read with the piece)'],
        'max_cuts': CAPS_THOROUGH if ctx.thorough else CAPS_QUICK,
        'all_positions_up_to_bytes': 1536 if ctx.thorough else 130,
        'streams': len(_IMAGES)}
    rep.notes['assumptions'] = [
        'eat_chunk/finish/queries are deterministic functions of instance state (merging)',
        'the fast structural clone equals copy.deepcopy for inspector objects (checked by --selftest)']
    return rep


def replay(payload):
    from vlib.mc import stream as S
    if payload.get('isolation'):
        system = S.make_system(payload['system'])
        da, db = unpack(payload['a']), unpack(payload['b'])
        ca, cb = payload['ca'], payload['cb']
        sa, sb = _solo(system, da, ca), _solo(system, db, cb)
        if payload['order'] == 'a-alone-again':
            again = _solo(system, da, ca)
            return {'violates': again != sa, 'first': repr(sa), 'again': repr(again)}
        got = _interleaved(system, da, ca, db, cb, tuple(payload['order']))
        return {'violates': got != [sa, sb], 'alone': [repr(sa), repr(sb)],
                'interleaved': [repr(g) for g in got]}
    if payload.get('kind') == 'I8':
        data = unpack(payload['image'])
        tv, tbad = S.typed_run(payload['system'], data, payload['cuts'], payload['chunk_kind'])
        return {'violates': repr(tv) != payload['expected'] or bool(tbad),
                'verdict': repr(tv), 'expected': payload['expected'], 'region_problems': tbad[:3]}
    if payload.get('kind') == 'T1x':
        data = unpack(payload['image'])
        ends = []
        for name, key in (('wrapper', 'path_exact'), ('wrapper-short', 'path_short')):
            obj, trace = S.replay_path(S.make_system(name), data, payload[key], queries=True)
            last = trace[-1] if trace else {}
            ends.append(repr(last.get('verdict', last.get('raised'))))
        return {'violates': ends[0] != ends[1], 'exact_reads': ends[0], 'short_reads': ends[1]}
    if payload.get('mini'):
        system = MiniSystem()
        data = bytes.fromhex(payload['data_hex'])
    else:
        data = unpack(payload['image'])
        system = S.make_system(payload['system'])
    obs = []
    bad_regions = impure = revised = False
    if payload.get('kind') == 'I9':
        ends = []
        for q in (True, False):
            obj, trace = S.replay_path(system, data, payload['paths'][0], queries=q, observe=q)
            last = trace[-1] if trace else {}
            ends.append(repr(last.get('verdict', last.get('raised'))))
        return {'violates': ends[0] != ends[1], 'with_intermediate_queries': ends[0],
                'without': ends[1]}
    quiet = str(payload.get('kind', '')).startswith('I4')
    for path in payload['paths']:
        obj, trace = S.replay_path(system, data, path, queries=not quiet, observe=not quiet)
        last = trace[-1] if trace else {}
        pos = max([x for x in path if isinstance(x, int)] or [0])
        for i in system.inspectors(obj):
            if S.region_exactness(i, data, pos):
                bad_regions = True
        before = system.canon(obj)
        for i in system.inspectors(obj):
            S.query_all(i)
        if system.kind == 'wrapper':
            S.wrapper_decision(obj)
            S.wrapper_format(obj)
        impure = impure or system.canon(obj) != before
        ds = [t.get('decision') for t in trace if 'decision' in t]
        if trace and 'verdict' in trace[-1] and system.kind == 'wrapper':
            ds.append(trace[-1]['verdict'][0])
        firm = [d for d in ds if d is not None]
        revised = revised or (len(set(map(repr, firm))) > 1) or \
            (firm and ds.index(firm[0]) < len(ds) - 1 and
             any(d is None for d in ds[ds.index(firm[0]):]))
        obs.append({'path': path[-8:], 'end': last.get('verdict', last.get('raised'))})
    ends = {repr(o['end']) for o in obs}
    kind = payload.get('kind', 'T1')
    if kind.startswith('I1'):
        violates = bad_regions
    elif kind.startswith('I4'):
        violates = impure
    elif kind.startswith('I5'):
        violates = bool(revised)
    elif kind.startswith('T1'):
        violates = len(ends) > 1
    else:
        violates = True
    return {'violates': violates, 'observations': obs, 'kind': kind}
