"""C08 - mask_dict_password masks recursively and never modifies its argument.

Engine C: all mappings of a bounded family (depth <= 3/4, width <= 3, typed
key/value alphabets, dict / Mapping subclass / MappingProxyType containers),
plus every sanitize key embedded in string keys in every case and position.
Oracle: an independent recursive reference; exact `dict` results with identical
key sets at every level; identity of pass-through values; a deep structural
snapshot of the argument taken before the call equals the one taken after.
"""
import collections.abc
import itertools
import types

from vlib.checks.c04 import KEYS
from vlib.mc import enum as E

PROPERTY = 'C08'
LEVEL = 'model_checking'
ENGINE = 'C'
TECHNIQUE = ('stateless bounded model checking: complete enumeration of nested mappings over typed '
             'key/value alphabets against a recursive reference, with a deep '
             'before/after snapshot of the argument')
LEVEL_TEXT = ('Every mapping of the bounded family - all key subsets up to '
              'width 3 over eight typed keys with all leaf values at depth 1; '
              'all key subsets up to width 2 with leaves or any representative '
              'sub-mapping at depths 2-3(4); three container types; two masks; '
              'all 35 sanitize keys embedded at start/middle/end in three '
              'letter cases - is masked and compared with the reference, and '
              'the argument is compared with its own snapshot.')
LEVEL_NOTE = ('Sub-mappings at depth >= 2 are drawn from a representative '
              'subset of the lower level (printed in bounds), not from all of '
              'it. String leaves are expected to equal mask_password(leaf), '
              'which C04 checks.')


class MyMapping(collections.abc.Mapping):
    def __init__(self, d):
        self._d = dict(d)

    def __getitem__(self, k):
        return self._d[k]

    def __iter__(self):
        return iter(self._d)

    def __len__(self):
        return len(self._d)

    def __repr__(self):
        return 'MyMapping(%r)' % (self._d,)


class LazyView(collections.abc.Mapping):
    """A read-only view that builds the view of a nested dict on access: every
    __getitem__ of a dict-valued key returns a *new* wrapper object (nothing keeps it
    alive, so its address is free for the next one)."""
    def __init__(self, d):
        self._d = d

    def __getitem__(self, k):
        v = self._d[k]
        return LazyView(v) if type(v) is dict else v

    def __iter__(self):
        return iter(self._d)

    def __len__(self):
        return len(self._d)

    def __repr__(self):
        return 'LazyView(%r)' % (self._d,)


KEYS8 = ['password', 'Admin_Pass', 'x_token_y', 'passwor', 'user', 3, ('password',), b'password']
LEAVES = ['plain', 'password=abc', b'bytes', 7, None, ['password=abc'], 1.5,
          [{'password': 'in-a-list'}], ('t', {'secret': 'x'})]
# string leaves carrying a secret in every letter case / rendering (depth-1 family)
SECRET_LEAVES = ["{'adminPass': 'TL0EfN33'}", 'OS_PASSWORD=x1', '<adminPass>x2</adminPass>',
                 '--Token x3', "AUTH_TOKEN = 'x4'", '"Secret_UUID": "x5"', 'no secret here',
                 'x' * 5000 + ' --password x6']
KEYS5 = ['password', 'x_token_y', 'user', 3, b'password']
LEAVES4 = ['plain', '--token abc', 7, [{'password': 'in-a-list'}]]
CONTAINERS = ['dict', 'MyMapping', 'proxy']
CONTAINERS4 = CONTAINERS + ['lazy']
MASKS = ['***', '<hidden>']


def wrap(d, kind):
    if kind == 'dict':
        return dict(d)
    if kind == 'MyMapping':
        return MyMapping(d)
    if kind == 'lazy':
        return LazyView({k: (v._d if isinstance(v, LazyView) else v) for k, v in d.items()})
    return types.MappingProxyType(dict(d))


def fresh(x):
    """Deep-build a fresh value from a spec so that cases never share mutable
    objects. Spec: ('map', kind, ((key, spec), ...)) | ('leaf', index into table)"""
    if x[0] == 'leaf':
        v = x[1]
        return _copy_leaf(v)
    _, kind, items = x
    return wrap({k: fresh(v) for k, v in items}, kind)


def _copy_leaf(v):
    if isinstance(v, list):
        return [_copy_leaf(e) for e in v]
    if isinstance(v, tuple):
        return tuple(_copy_leaf(e) for e in v)
    if isinstance(v, dict):
        return {k: _copy_leaf(e) for k, e in v.items()}
    return v


def snapshot(x, seen=None):
    """Deep structural snapshot: types, identities of containers, contents."""
    if isinstance(x, LazyView):
        return ('lazy', snapshot(x._d))
    if isinstance(x, collections.abc.Mapping):
        return ('map', type(x).__name__, id(x),
                tuple((repr(k), id(v), snapshot(v)) for k, v in x.items()))
    if isinstance(x, (list, tuple, set, frozenset)):
        return (type(x).__name__, id(x), tuple(snapshot(e) for e in x))
    return (type(x).__name__, repr(x))


def is_secret_key(k):
    return isinstance(k, str) and any(s in k.lower() for s in KEYS)


def reference(m, secret, mask_password):
    out = {}
    for k, v in m.items():
        if isinstance(v, collections.abc.Mapping):
            out[k] = reference(v, secret, mask_password)
        elif is_secret_key(k):
            out[k] = secret
        elif isinstance(v, str):
            out[k] = mask_password(v, secret)
        else:
            out[k] = v
    return out


def compare(got, want, arg, path=''):
    """-> first difference or None. Pass-through values must be the very same
    object that was in the argument."""
    if type(got) is not dict:
        return '%s: result is %s, not dict' % (path or '<top>', type(got).__name__)
    if list(got.keys()) != list(want.keys()) and set(map(repr, got)) != set(map(repr, want)):
        return '%s: key sets differ' % (path or '<top>')
    for k in want:
        if k not in got:
            return '%s: key %r missing' % (path, k)
        g, w, a = got[k], want[k], arg[k]
        if isinstance(w, dict) and isinstance(a, collections.abc.Mapping):
            d = compare(g, w, a, path + '/' + repr(k))
            if d:
                return d
        elif isinstance(a, str) or is_secret_key(k):
            if g != w or type(g) is not type(w):
                return '%s/%r: got %r, want %r' % (path, k, g, w)
        else:
            if g is not a:
                return '%s/%r: pass-through value is not the same object (got %r)' % (path, k, g)
    return None


def _case(vals, acc):
    from oslo_utils import strutils
    spec, mask = vals
    arg = fresh(spec)
    before = snapshot(arg)
    before_repr = repr(arg)
    want = reference(arg, mask, strutils.mask_password)
    try:
        got = strutils.mask_dict_password(arg, mask) if mask != '***' else \
            strutils.mask_dict_password(arg)
    except Exception as e:
        acc.fail('raises', {'argument': before_repr, 'exception': type(e).__name__},
                 {'spec_repr': repr(spec), 'mask': mask})
        return
    if before_repr != repr(want):
        acc.nontrivial(before_repr + mask)
    diff = compare(got, want, arg)
    if diff:
        acc.fail('result:' + diff.split(':')[-1].strip().split(' ')[0],
                 {'argument': before_repr, 'mask': mask, 'got': repr(got), 'want': repr(want),
                  'difference': diff}, {'spec_repr': repr(spec), 'mask': mask})
        return
    if snapshot(arg) != before:
        acc.fail('argument-modified', {'argument_before': before_repr, 'argument_after': repr(arg)},
                 {'spec_repr': repr(spec), 'mask': mask})
        return
    if got is arg:
        acc.fail('argument-returned', {'argument': before_repr}, {'spec_repr': repr(spec), 'mask': mask})
        return
    try:
        got['scribbled-by-the-first-caller'] = 1      # the result belongs to the caller
        for v in got.values():
            if isinstance(v, dict):
                v['scribbled'] = 2
        again = strutils.mask_dict_password(arg, mask)
        got = again                                    # compare the fresh answer below
    except Exception as e:
        again = ('raises', type(e).__name__)
    if again != got or compare(again, want, arg):
        acc.fail('second-call-differs', {'argument': before_repr, 'first': repr(got),
                                         'second': repr(again)},
                 {'spec_repr': repr(spec), 'mask': mask})


SHARED_SHAPES = ['siblings', 'uncle', 'three', 'deep-twice', 'shared-leafless']


def _shared_case(vals, acc):
    from oslo_utils import strutils
    shape, kind, mask = vals
    c = wrap({'password': 'p', 'note': 'token=abc'}, 'dict' if kind == 'lazy' else kind)
    name = SHARED_SHAPES[shape]
    if name == 'siblings':
        arg = {'a': c, 'b': c}
    elif name == 'uncle':
        arg = {'a': c, 'b': {'x': c}}
    elif name == 'three':
        arg = {'a': c, 'b': c, 'c': {'d': c}}
    elif name == 'deep-twice':
        inner = {'k': c}
        arg = {'p': {'q': inner}, 'r': inner}
    else:
        e = wrap({}, 'dict' if kind == 'lazy' else kind)
        arg = {'a': e, 'b': e, 'c': c, 'd': c}
    if kind != 'dict':
        arg = wrap(arg, kind) if kind != 'lazy' else arg
    before = snapshot(arg)
    want = reference(arg, mask, strutils.mask_password)
    acc.nontrivial(repr((name, kind, mask)))
    try:
        got = strutils.mask_dict_password(arg, mask)
    except Exception as e:
        acc.fail('raises', {'argument': repr(arg), 'exception': type(e).__name__},
                 {'shared': [shape, kind, mask]})
        return
    diff = compare(got, want, arg)
    if diff or snapshot(arg) != before:
        acc.fail('result:shared-submapping', {'shape': name, 'container': kind, 'argument': repr(arg),
                                              'got': repr(got), 'want': repr(want), 'difference': diff},
                 {'shared': [shape, kind, mask]})


class RowLike:
    """Looks like a row (keys() and __getitem__) but is not a Mapping."""
    def keys(self):
        return ['a', 'password']

    def __getitem__(self, k):
        return 1

    def __iter__(self):
        return iter(self.keys())

    def __len__(self):
        return 2


class ItemsOnly:
    def items(self):
        return [('password', 'x')]


def level1(keys, leaves, maxw, kinds):
    out = []
    for w in range(0, maxw + 1):
        for ks in itertools.combinations(range(len(keys)), w):
            for ls in itertools.product(range(len(leaves)), repeat=w):
                kind = kinds[(len(out)) % len(kinds)]
                out.append(('map', kind, tuple((keys[k], ('leaf', leaves[l]))
                                               for k, l in zip(ks, ls))))
    return out


def representatives(level, n):
    """n specs spread over a level (always includes the empty and the last)."""
    if len(level) <= n:
        return level
    step = (len(level) - 1) / float(n - 1)
    return [level[int(round(i * step))] for i in range(n)]


def deeper(keys, leaves, maxw, subs, kinds):
    vals = [('leaf', l) for l in leaves] + list(subs)
    out = []
    for w in range(1, maxw + 1):
        for ks in itertools.combinations(range(len(keys)), w):
            for vs in itertools.product(range(len(vals)), repeat=w):
                if not any(v >= len(leaves) for v in vs):
                    continue                 # no sub-mapping: that is level 1
                kind = kinds[len(out) % len(kinds)]
                out.append(('map', kind, tuple((keys[k], vals[v]) for k, v in zip(ks, vs))))
    return out


def run(ctx):
    rep = ctx.new_report()
    from vlib.ref import noise as _noise
    E.set_noise(_noise.strutils_noise())
    full = ctx.thorough
    l1_full = level1(KEYS8, LEAVES if full else LEAVES[:8], 3, CONTAINERS)
    l1_w3 = []
    l1 = level1(KEYS5, LEAVES4, 2, CONTAINERS)
    l2 = deeper(KEYS5, LEAVES4, 2, representatives(l1, 20 if full else 14), CONTAINERS)
    l3 = deeper(KEYS5, LEAVES4, 2, representatives(l2, 16 if full else 12), CONTAINERS)
    lsec = level1(['body', 'msg', 3], SECRET_LEAVES, 2, CONTAINERS)
    lsec += [('map', 'dict', (('outer', s2),)) for s2 in lsec[:40]]
    groups = [('depth1', l1_full + l1_w3), ('secret-strings', lsec), ('depth2', l2), ('depth3', l3)]
    if full:
        l4 = deeper(KEYS5[:4], LEAVES4[:3], 2, representatives(l3, 8), CONTAINERS)
        groups.append(('depth4', l4))
    # three and four mapping-valued siblings (all containers, incl. views built on access)
    smalls = [(), (('x', ('leaf', 1)),), (('y', ('leaf', 2)),), (('password', ('leaf', 'p')),),
              (('msg', ('leaf', 'token=abc')), ('z', ('leaf', None)))]
    sib = []
    for n in (3, 4):
        for combo in itertools.product(range(len(smalls)), repeat=n):
            for kind in CONTAINERS4:
                inner = 'dict' if kind == 'lazy' else CONTAINERS[(len(sib)) % 3]
                sib.append(('map', kind, tuple((('k%d' % i), ('map', inner, smalls[c]))
                                               for i, c in enumerate(combo))))
    groups.append(('siblings', sib))
    # every sanitize key in every rendering inside a string stored under an innocent key
    renderings = ['%s=abc', "'%s': 'abc'", '<%s>abc</%s>', '--%s abc', '%s = "abc"', '"%s":"abc"',
                  "u'%s': u'abc'", '%s abc', "{'x_%s': 'abc'}", 'swift --os-%s abc stat']
    strs = []
    for k in KEYS:
        for form in (k, k.upper()):
            for r in renderings:
                for sec in ('abc', '7'):             # also the shortest possible values
                    leaf = r.replace('%s', form).replace('abc', sec)
                    strs.append(('map', CONTAINERS4[len(strs) % 4], (('cmd', ('leaf', leaf)),)))
    groups.append(('secret-strings-all-keys', strs))
    # two string values of one call that differ only in letter case (or not at all)
    variants = ['Password=abc', 'password=abc', 'PASSWORD=abc', 'password=ABC', 'Hello', 'hello',
                '--Token x', '--token x']
    pairs = []
    for a, b in itertools.product(variants, repeat=2):
        pairs.append(('map', 'dict', (('a', ('leaf', a)), ('b', ('leaf', b)))))
        pairs.append(('map', 'dict', (('a', ('leaf', a)), ('sub', ('map', 'dict', (('b', ('leaf', b)),))))))
        pairs.append(('map', 'lazy', (('s1', ('map', 'dict', (('a', ('leaf', a)),))),
                                      ('s2', ('map', 'dict', (('b', ('leaf', b)),))))))
    groups.append(('case-variant-strings', pairs))
    for name, specs in groups:
        E.run(rep, name, [specs, MASKS], _case)
    # one sub-mapping *object* reachable along two paths (siblings, uncle and nephew, three
    # times): a DAG, not a cycle; every occurrence is masked
    E.run(rep, 'shared-submappings', [list(range(len(SHARED_SHAPES))), CONTAINERS4, MASKS], _shared_case)
    # every sanitize key embedded in a string key, three cases, three positions
    emb = []
    for k in KEYS:
        for form in (k, k.upper(), k.capitalize()):
            for key in (form, 'x_' + form, form + '_y', 'a' + form + 'b'):
                for leaf in ('s3cr3t', 7, None, b'b', ['l']):
                    emb.append(('map', 'dict', ((key, ('leaf', leaf)), ('other', ('leaf', 'v')))))
                emb.append(('map', 'MyMapping', (('outer', ('map', 'proxy', ((key, ('leaf', 's3cr3t')),))),)))
                emb.append(('map', 'dict', ((key, ('map', 'dict', (('inner', ('leaf', 'kept')),))),)))
    E.run(rep, 'embedded-keys', [emb, MASKS], _case)
    # non-mapping arguments raise TypeError
    from oslo_utils import strutils
    import email.message
    msg = email.message.Message()
    msg['password'] = 'x'
    for bad in ([], [('password', 'x')], 'password=x', None, 3, {1, 2}, b'x', ('a',), RowLike(), ItemsOnly(),
                msg, {'password': 'x'}.items(), {'password': 'x'}.keys()):
        rep.count('evaluations')
        rep.nontrivial('nonmapping' + repr(bad))
        try:
            strutils.mask_dict_password(bad)
            rep.fail('non-mapping-accepted', {'argument': repr(bad)}, {'nonmapping': repr(bad)})
        except TypeError:
            pass
        except Exception as e:
            rep.fail('non-mapping-wrong-exception', {'argument': repr(bad), 'exception': type(e).__name__},
                     {'nonmapping': repr(bad)})
    rep.sample({'argument': repr(fresh(l2[len(l2) // 2])), 'mask': '***'})
    rep.sample({'argument': repr(fresh(l3[-1])), 'mask': '<hidden>'})
    rep.notes['rule'] = (
        'complete enumeration of the mapping families listed in bounds x 2 '
        'masks; non-trivial = masking changes the mapping (reference result '
        'differs from the argument); counted per distinct (argument, mask).')
    rep.notes['bounds'] = {
        'depth1': '%d mappings: all key subsets (width <= %d) of %r x all leaves' % (
            len(l1_full) + len(l1_w3), 3, [repr(k) for k in KEYS8]),
        'depth2': len(l2), 'depth3': len(l3),
        'siblings': len(sib), 'secret_strings_all_keys': len(strs), 'case_variant_pairs': len(pairs),
        'containers': CONTAINERS4, 'masks': MASKS, 'embedded_key_cases': len(emb)}
    return rep


def replay(payload):
    from oslo_utils import strutils
    if 'nonmapping' in payload:
        return {'violates': True, 'note': 'see summary'}

    if 'shared' in payload:
        acc = _Acc()
        _shared_case(tuple(payload['shared']), acc)
        return {'violates': bool(acc.fails), 'problems': acc.fails}
    import ast
    spec = ast.literal_eval(payload['spec_repr'])
    arg = fresh(spec)
    before = snapshot(arg)
    want = reference(arg, payload['mask'], strutils.mask_password)
    try:
        got = strutils.mask_dict_password(arg, payload['mask'])
    except Exception as e:
        return {'violates': True, 'raised': type(e).__name__}
    diff = compare(got, want, arg)
    return {'violates': bool(diff) or snapshot(arg) != before or got is arg,
            'difference': diff, 'argument_modified': snapshot(arg) != before,
            'got': repr(got), 'want': repr(want)}


class _Acc:
    def __init__(self):
        self.fails = []

    def fail(self, cls, summary, payload, sigs=()):
        self.fails.append({'class': cls, 'summary': summary})

    def count(self, *a):
        pass

    def nontrivial(self, *a):
        pass
