"""C12 - time normalisation, overridden-clock comparison and marshalling are exact.

Engine B: BFS over sequences of override-clock operations (set, advance by
delta / seconds, clear, TimeFixture enter / advance / exit) on the real module
state, in lock-step with a reference clock; after every transition utcnow(),
utcnow(True), utcnow_ts() and utcnow_ts(True) are compared. Engine C: products
instants x offsets / zones for normalize_time and parse_isotime, marshalling
round trips, and (now, t, seconds) triples for is_older_than / is_newer_than /
is_soon with t naive, aware and as ISO text - under two host time zones.
"""
import datetime
import os
import time
import zoneinfo
from fractions import Fraction

from vlib import par
from vlib.mc import enum as E
from vlib.mc import seq

PROPERTY = 'C12'
LEVEL = 'model_checking'
ENGINE = 'B+C'
TECHNIQUE = ('explicit-state BFS over override-clock operation sequences on the '
             'real module state with a lock-step reference clock; exhaustive '
             'products for normalisation, marshalling and comparisons against '
             'datetime arithmetic')
LEVEL_TEXT = ('All sequences of override operations up to the stated depth over boundary '
'instants and deltas (module functions and TimeFixture, including a cleaned-up '
'fixture that is set up again) are executed on the real timeutils state - each '
'node\'s state rebuilt by replaying its whole history - and every query is '
'compared with a reference clock after every step; the normalisation, '
'marshalling and comparison functions are evaluated on the complete product of '
'instants x offsets x margins (including the exact-equality boundary, '
'microsecond and negative margins), for naive, aware and ISO-string arguments, '
'fixed offsets, named daylight-saving zones next to their transitions, and '
'under several host time zones.')
LEVEL_NOTE = ('Instants, offsets and margins are the listed boundary values, '
              'not all datetimes. Only the single-instant override form is '
              'driven (not the list form). Real wall-clock behaviour without '
              'override is outside the check.')

DT = datetime.datetime
TD = datetime.timedelta
UTC = datetime.timezone.utc
EPOCH = DT(1970, 1, 1)

INSTANTS = [DT(1970, 1, 1), DT(2000, 2, 29, 23, 59, 59, 999999), DT(2038, 1, 19, 3, 14, 7),
            DT(1, 1, 2, 0, 0, 0), DT(9999, 12, 30, 12, 0, 0), DT(1969, 12, 31, 23, 59, 59, 500000),
            DT(1970, 1, 1, 0, 0, 1, 500000)]
DELTAS = [TD(0), TD(microseconds=1), TD(microseconds=-1), TD(seconds=1), TD(seconds=1.5),
          TD(days=1), TD(seconds=-1)]
SECONDS = [0, 1e-06, -1e-06, 1, 1.5, 86400, -1]


# ---------------------------------------------------------------------------
# Engine B: the override clock

def clock_actions(thorough):
    acts = []
    for i in range(len(INSTANTS)):
        acts.append(('set', i))
    for i in range(len(DELTAS)):
        acts.append(('adv_delta', i))
    for i in range(len(SECONDS)):
        acts.append(('adv_seconds', i))
    acts.append(('clear', None))
    for i in (0, 1, 5) if not thorough else range(len(INSTANTS)):
        acts.append(('fx_enter', i))
    acts.append(('fx_adv_seconds', 3))
    acts.append(('fx_adv_delta', 2))
    acts.append(('fx_exit', None))
    acts.append(('fx_reuse', None))        # the fixture object that was cleaned up is set up again
    return acts


class RefClock:
    def __init__(self):
        self.now = None          # overridden instant or None
        self.fx = False
        self.fx_init = None      # instant the live fixture was constructed for
        self.prev_init = None    # ... the last cleaned-up fixture

    def apply(self, act):
        kind, i = act
        if kind in ('set', 'fx_enter'):
            self.now = INSTANTS[i]
            if kind == 'fx_enter':
                self.fx = True
                self.fx_init = INSTANTS[i]
        elif kind == 'fx_reuse':
            self.now = self.prev_init
            self.fx, self.fx_init = True, self.prev_init
        elif kind in ('adv_delta', 'fx_adv_delta'):
            self.now = self.now + DELTAS[i]
        elif kind in ('adv_seconds', 'fx_adv_seconds'):
            self.now = self.now + TD(0, SECONDS[i])
        elif kind in ('clear', 'fx_exit'):
            self.now = None
            if kind == 'fx_exit':
                self.prev_init = self.fx_init
            self.fx = False


def exact_ts(t):
    """-> (floor seconds, exact Fraction seconds) since the epoch"""
    d = t - EPOCH
    micro = d.days * 86400 * 10 ** 6 + d.seconds * 10 ** 6 + d.microseconds
    return micro // 10 ** 6, Fraction(micro, 10 ** 6)


def query_all(timeutils, ref):
    """Compare the four queries with the reference clock. -> problem or None"""
    if ref.now is None:
        if timeutils.utcnow.override_time is not None:
            return {'kind': 'override-not-cleared', 'got': repr(timeutils.utcnow.override_time)}
        n = timeutils.utcnow()
        if not isinstance(n, DT) or n.tzinfo is not None:
            return {'kind': 'utcnow-without-override', 'got': repr(n)}
        return None
    a = timeutils.utcnow()
    b = timeutils.utcnow(True)
    if a != ref.now:
        return {'kind': 'utcnow', 'got': repr(a), 'want': repr(ref.now)}
    if b.replace(tzinfo=None) != ref.now:
        return {'kind': 'utcnow(with_timezone)', 'got': repr(b), 'want': repr(ref.now)}
    fl, ex = exact_ts(ref.now)
    c = timeutils.utcnow_ts()
    if c != fl or isinstance(c, bool):
        return {'kind': 'utcnow_ts', 'got': repr(c), 'want': fl, 'instant': repr(ref.now)}
    d = timeutils.utcnow_ts(True)
    import math
    # the implementation adds the microsecond fraction to the integer
    # timestamp in floating point: rounding happens at the magnitude of the sum's
    # operands, not of the (possibly tiny) result
    if abs(Fraction(d) - ex) > 2 * Fraction(math.ulp(max(abs(float(fl)), 1.0))):
        return {'kind': 'utcnow_ts(microsecond)', 'got': repr(d), 'want': str(ex)}
    return None


def enabled(node):
    ref = node.ref
    out = []
    for act in node.extra['acts']:
        kind = act[0]
        if kind in ('adv_delta', 'adv_seconds') and ref.now is None:
            continue
        if kind.startswith('fx_adv') and not ref.fx:
            continue
        if kind == 'fx_exit' and not ref.fx:
            continue
        if kind == 'fx_enter' and ref.fx:
            continue
        if kind == 'fx_reuse' and (ref.fx or ref.prev_init is None):
            continue
        out.append(act)
    return out


def impl_canon(timeutils, fx):
    """Everything the implementation remembers about the clock: the override
    attribute and whatever the live fixture object carries."""
    parts = [repr(timeutils.utcnow.override_time)]
    for tag, f in (('live', fx), ('cleaned-up', _PREV[0] if _PREV[0] is not fx else None)):
        if f is None:
            continue
        parts.append(tag)
        for k in sorted(vars(f)):
            v = vars(f)[k]
            if k.startswith('_cleanups') or k in ('_details', '_detail_sources') or callable(v):
                continue
            if isinstance(v, (DT, TD, int, float, str, bool, type(None))):
                parts.append('%s=%r' % (k, v))
    return '|'.join(parts)


_PREV = [None]      # the fixture object cleaned up last (within one history replay)


def do_act(timeutils, fixture, fx, act):
    """Run one action on the implementation. -> (fixture object or None, exception class name or None)"""
    kind, i = act
    try:
        if kind == 'set':
            timeutils.set_time_override(INSTANTS[i])
        elif kind == 'adv_delta':
            timeutils.advance_time_delta(DELTAS[i])
        elif kind == 'adv_seconds':
            timeutils.advance_time_seconds(SECONDS[i])
        elif kind == 'clear':
            timeutils.clear_time_override()
        elif kind == 'fx_enter':
            fx = fixture.TimeFixture(INSTANTS[i])
            fx.setUp()
        elif kind == 'fx_adv_seconds':
            fx.advance_time_seconds(SECONDS[i])
        elif kind == 'fx_adv_delta':
            fx.advance_time_delta(DELTAS[i])
        elif kind == 'fx_exit':
            fx.cleanUp()
            _PREV[0] = fx
            fx = None
        elif kind == 'fx_reuse':
            fx = _PREV[0]
            fx.setUp()
        return fx, None
    except OverflowError:
        return fx, 'OverflowError'
    except Exception as e:
        return fx, type(e).__name__


def clock_step(node, act):
    """One transition. The implementation state of `node` is rebuilt by replaying the
    node's whole history from a cleared clock (nothing is assumed about where the
    implementation keeps its state), then `act` is run and the queries compared."""
    import copy
    from oslo_utils import fixture, timeutils
    ref = copy.copy(node.ref)
    timeutils.utcnow.override_time = None
    fx = None
    _PREV[0] = None
    for a in node.hist:
        fx, _ = do_act(timeutils, fixture, fx, a)
    try:
        ref.apply(act)
        ref_exc = None
    except OverflowError:
        ref_exc = 'OverflowError'
    fx, impl_exc = do_act(timeutils, fixture, fx, act)
    problem = None
    if impl_exc != ref_exc:
        problem = {'kind': 'exception', 'got': impl_exc, 'want': ref_exc}
    elif ref_exc is None:
        problem = query_all(timeutils, ref)
    if ref_exc is not None:
        ref = copy.copy(node.ref)
    ref.impl = impl_canon(timeutils, fx)
    new = seq.Node(None, ref, node.hist + (act,), node.extra)
    if fx is not None:
        try:
            fx.cleanUp()
        except Exception:
            pass
    timeutils.utcnow.override_time = None
    return new, problem


def _clock_job(job):
    depth, thorough, first = job
    import collections
    from oslo_utils import timeutils
    counters = collections.Counter()
    fails = []
    acts = clock_actions(thorough)
    root = seq.Node(None, RefClock(), (), {'acts': acts})
    # partition: this job explores histories whose first action is `first`
    if acts[first] not in enabled(root):
        return dict(counters), fails, 0
    n1, p = clock_step(root, acts[first])
    counters['transitions'] += 1
    counters['traces_validated_against_impl'] += 1
    if p is not None:
        fails.append({'history': [list(acts[first])], 'problem': p})
        return dict(counters), fails, 0

    def on_fail(node, act, problem):
        fails.append({'history': [list(a) for a in node.hist + (act,)], 'problem': problem})

    n = seq.bfs([n1], acts, clock_step,
                lambda nd: (nd.ref.now, nd.ref.fx, nd.ref.fx_init, nd.ref.prev_init,
                            getattr(nd.ref, 'impl', None)), depth - 1,
                on_fail, counters, enabled=enabled)
    timeutils.utcnow.override_time = None
    return dict(counters), fails[:20], n


# ---------------------------------------------------------------------------
# Engine C: normalisation / parsing / marshalling / comparisons

OFFSETS = [TD(hours=-23, minutes=-59), TD(hours=-12), TD(hours=-1), TD(minutes=-1), TD(0),
           TD(minutes=1), TD(hours=5, minutes=30), TD(hours=12), TD(hours=23, minutes=59)]
ZONES = ['UTC', 'Europe/Paris', 'America/St_Johns']
NORM_INSTANTS = INSTANTS + [DT.min + TD(hours=3), DT.max - TD(hours=3), DT(2021, 3, 28, 1, 30),
                            DT(2021, 10, 31, 2, 30, 0, 1)]
TZS = ['UTC0', 'EST5EDT,M3.2.0,M11.1.0', 'IST-5:30']


def set_tz(tz):
    os.environ['TZ'] = tz
    time.tzset()


class Floating(datetime.tzinfo):
    """A tzinfo that does not know its offset: utcoffset() is None, which is Python's
    definition of a naive datetime ('floating' local time of calendar applications)."""
    def utcoffset(self, dt):
        return None

    def dst(self, dt):
        return None

    def tzname(self, dt):
        return 'floating'


def _norm_case(vals, acc):
    from oslo_utils import timeutils
    tz, inst, off = vals
    set_tz(tz)
    try:
        if off == 'floating':
            arg = inst.replace(tzinfo=Floating())
            acc.nontrivial('floating%r%s' % (inst, tz))
            try:
                got = timeutils.normalize_time(arg)
            except Exception as e:
                got = ('raises', type(e).__name__)
            if got is not arg and not (isinstance(got, DT) and got.replace(tzinfo=None) == inst):
                acc.fail('normalize-naive', {'input': repr(arg), 'got': repr(got), 'TZ': tz,
                                             'note': 'utcoffset() is None: a naive datetime'},
                         {'norm': [inst.isoformat(), 'floating', tz]})
            return
        if off is None:
            try:
                got = timeutils.normalize_time(inst)
            except Exception as e:
                got = ('raises', type(e).__name__)
            acc.nontrivial('naive%r%s' % (inst, tz))
            if got != inst or got.tzinfo is not None:
                acc.fail('normalize-naive', {'input': repr(inst), 'got': repr(got), 'TZ': tz},
                         {'norm': [inst.isoformat(), None, tz]})
            txt = inst.isoformat()
            try:
                p = timeutils.parse_isotime(txt)
                ok = timeutils.normalize_time(p) == inst
            except Exception as e:
                p, ok = ('raises', type(e).__name__), False
            if not ok:
                acc.fail('parse-isotime-naive', {'text': txt, 'got': repr(p)},
                         {'norm': [inst.isoformat(), None, tz]})
            return
        if isinstance(off, str):
            tzinfo = zoneinfo.ZoneInfo(off)
        else:
            tzinfo = datetime.timezone(off)
        try:
            aware = inst.replace(tzinfo=tzinfo)
            want = inst - aware.utcoffset()
        except OverflowError:
            return
        acc.nontrivial('%r%r%s' % (inst, off, tz))
        try:
            got = timeutils.normalize_time(aware)
        except Exception as e:
            got = ('raises', type(e).__name__)
        if got != want or (isinstance(got, DT) and got.tzinfo is not None):
            acc.fail('normalize-aware', {'input': repr(aware), 'got': repr(got), 'want': repr(want),
                                         'TZ': tz},
                     {'norm': [inst.isoformat(), repr(off), tz]})
            return
        if not isinstance(off, str):
            txt = aware.isoformat()
            try:
                p = timeutils.parse_isotime(txt)
                ok = p == aware and p.utcoffset() == aware.utcoffset()
            except Exception as e:
                p, ok = ('raises', type(e).__name__), False
            if not ok:
                acc.fail('parse-isotime', {'text': txt, 'got': repr(p)},
                         {'norm': [inst.isoformat(), repr(off), tz]})
    finally:
        set_tz('UTC0')


MARGINS = [-86400, -5, -1, -1e-06, 0, 1e-06, 1, 5, 86400, 60, 60.25, 60.5, 60.000001, 59.999999]
FORMS = ['naive', 'aware+05:00', 'aware-03:30', 'iso-naive', 'iso+05:30', 'aware-utc']
CMP_NOWS = [DT(2000, 2, 29, 23, 59, 59, 999999), DT(1970, 1, 1, 0, 0, 1, 500000),
            DT(2038, 1, 19, 3, 14, 7)]


def present(t, form):
    """t is a naive UTC instant; give it in the requested form."""
    if form == 'naive':
        return t
    if form == 'aware-utc':
        return t.replace(tzinfo=UTC)
    if form.startswith('aware'):
        sign = 1 if form[5] == '+' else -1
        hh, mm = form[6:].split(':')
        off = sign * TD(hours=int(hh), minutes=int(mm))
        return (t + off).replace(tzinfo=datetime.timezone(off))
    if form == 'iso-naive':
        return t.isoformat()
    off = TD(hours=5, minutes=30)
    return (t + off).replace(tzinfo=datetime.timezone(off)).isoformat()


HUGE = [(TD(seconds=2 ** 34, microseconds=1), 2 ** 34), (TD(seconds=2 ** 34), 2 ** 34),
        (TD(seconds=2 ** 34, microseconds=-1), 2 ** 34),
        (TD(seconds=-2 ** 34, microseconds=-1), 2 ** 34), (TD(seconds=2 ** 35, microseconds=1), 2 ** 35),
        (TD(days=700000, microseconds=1), 700000 * 86400), (TD(days=-2500000, microseconds=-1), 2500000 * 86400),
        (TD(seconds=2 ** 33, microseconds=1), 2 ** 33)]


def _huge_case(vals, acc):
    """Ages of centuries: the comparison must stay exact to the microsecond."""
    from oslo_utils import timeutils
    (age, s), form = vals
    now = DT(5000, 1, 1, 0, 0, 0)
    try:
        t = now - age
    except OverflowError:
        return
    arg = present(t, form)
    acc.nontrivial(repr((age, s, form)))
    timeutils.set_time_override(now)
    try:
        want = {'is_older_than': age > TD(seconds=s), 'is_newer_than': -age > TD(seconds=s)}
        for f in want:
            try:
                got = getattr(timeutils, f)(arg, s)
            except Exception as e:
                got = ('raises', type(e).__name__)
            if got is not want[f]:
                acc.fail('%s:huge-age' % f, {'function': f, 'now': repr(now), 't': repr(arg),
                                             'age': repr(age), 'seconds': s, 'got': repr(got),
                                             'want': want[f]},
                         {'huge': [age.days, age.seconds, age.microseconds, s, form]})
                return
    finally:
        timeutils.clear_time_override()


def _cmp_case(vals, acc):
    from oslo_utils import timeutils
    tz, now, d, s, form = vals
    set_tz(tz)
    try:
        t = now - TD(seconds=d)
        arg = present(t, form)
        timeutils.set_time_override(now)
        want = {'is_older_than': TD(seconds=d) > TD(seconds=s),
                'is_newer_than': TD(seconds=-d) > TD(seconds=s)}
        got = {}
        for f in ('is_older_than', 'is_newer_than'):
            try:
                got[f] = getattr(timeutils, f)(arg, s)
            except Exception as e:
                got[f] = ('raises', type(e).__name__)
        if not isinstance(arg, str):
            want['is_soon'] = TD(seconds=-d) <= TD(seconds=s)
            try:
                got['is_soon'] = timeutils.is_soon(arg, s)
            except Exception as e:
                got['is_soon'] = ('raises', type(e).__name__)
        acc.nontrivial(repr((now, d, s, form, tz)))
        for f in want:
            if got[f] is not want[f] and got[f] != want[f]:
                acc.fail('%s:%s' % (f, form.split('+')[0].split('-')[0]),
                         {'function': f, 'now': repr(now), 't': repr(arg), 'seconds': s,
                          'got': repr(got[f]), 'want': want[f], 'TZ': tz},
                         {'cmp': [now.isoformat(), d, s, form, tz], 'function': f})
                return
    finally:
        timeutils.clear_time_override()
        set_tz('UTC0')


DST_ZONES = ['Europe/Berlin', 'America/New_York', 'Australia/Lord_Howe', 'Europe/London']


def transitions(zone, year=2021):
    """UTC instants (naive) at which the zone's offset changes in `year`, found by scanning."""
    z = zoneinfo.ZoneInfo(zone)
    out = []
    t = DT(year, 1, 1, tzinfo=UTC)
    prev = t.astimezone(z).utcoffset()
    step = TD(minutes=30)
    while t.year == year:
        t2 = t + step
        off = t2.astimezone(z).utcoffset()
        if off != prev:
            out.append(t2.replace(tzinfo=None))
            prev = off
        t = t2
    return out


def _dst_case(vals, acc):
    """t carries a named zone with daylight saving; the overridden 'now' sits next to
    one of that zone's transitions, so the transition falls inside or at the edge of
    the window. What counts is the instant t denotes."""
    from oslo_utils import timeutils
    zone, which, before, w, delta = vals
    trs = transitions(zone)
    if which >= len(trs):
        return
    now = trs[which] - TD(seconds=before)
    t_utc = now + TD(seconds=w) + TD(microseconds=delta)
    z = zoneinfo.ZoneInfo(zone)
    arg = t_utc.replace(tzinfo=UTC).astimezone(z)
    acc.nontrivial(repr(vals))
    timeutils.set_time_override(now)
    try:
        want = {'is_soon': delta <= 0,
                'is_newer_than': TD(seconds=w, microseconds=delta) > TD(seconds=w),
                'is_older_than': TD(seconds=-w, microseconds=-delta) > TD(seconds=w)}
        for f in want:
            try:
                got = getattr(timeutils, f)(arg, w)
            except Exception as e:
                got = ('raises', type(e).__name__)
            if got is not want[f]:
                acc.fail('%s:dst-zone' % f, {'function': f, 'now_utc': repr(now), 't': repr(arg),
                                             'fold': arg.fold, 't_as_utc': repr(t_utc), 'seconds': w,
                                             'got': repr(got), 'want': want[f]},
                         {'dst': [zone, which, before, w, delta], 'function': f})
                return
        n = timeutils.normalize_time(arg)
        if n != t_utc or n.tzinfo is not None:
            acc.fail('normalize_time:dst-zone', {'t': repr(arg), 'fold': arg.fold, 'got': repr(n),
                                                 'want': repr(t_utc)},
                     {'dst': [zone, which, before, w, delta], 'function': 'normalize_time'})
    finally:
        timeutils.clear_time_override()


def _marshal_case(vals, acc):
    tz = vals[2] if len(vals) > 2 else 'UTC0'
    set_tz(tz)
    try:
        _marshal_case_in_tz(vals[:2], acc, tz)
    finally:
        set_tz('UTC0')


def _marshal_case_in_tz(vals, acc, tz):
    from oslo_utils import timeutils
    import iso8601
    inst, tzk = vals
    tzinfo = {'naive': None, 'utc': UTC, 'iso8601': iso8601.iso8601.UTC,
              'zoneinfo': zoneinfo.ZoneInfo('UTC')}[tzk]
    dt = inst.replace(tzinfo=tzinfo)
    acc.nontrivial(repr((inst, tzk)))
    try:
        m = timeutils.marshall_now(dt)
        back = timeutils.unmarshall_time(m)
        ok = back == dt and (back.tzinfo is None) == (dt.tzinfo is None) and \
            back.replace(tzinfo=None) == inst
        if ok and dt.tzinfo is not None:
            ok = back.utcoffset() == TD(0)
    except Exception as e:
        back, ok = ('raises', type(e).__name__), False
    if not ok:
        acc.fail('marshall-roundtrip:%s' % tzk, {'input': repr(dt), 'got': repr(back), 'TZ': tz},
                 {'marshal': [inst.isoformat(), tzk, tz]})
        return
    # unmarshalling reads its argument: a second call on the same dict agrees
    snapshot = dict(m)
    try:
        again = timeutils.unmarshall_time(m)
        ok = again == back and (again.tzinfo is None) == (back.tzinfo is None) and m == snapshot
    except Exception as e:
        again, ok = ('raises', type(e).__name__), False
    if not ok:
        acc.fail('unmarshall-twice:%s' % tzk, {'dict_before': repr(snapshot), 'dict_after': repr(m),
                                               'first': repr(back), 'second': repr(again)},
                 {'marshal': [inst.isoformat(), tzk]})
        return
    # leap second is capped at 59
    m2 = dict(m, second=60)
    try:
        b2 = timeutils.unmarshall_time(m2)
        ok = b2.second == 59 and b2.replace(second=inst.second) == back
    except Exception as e:
        b2, ok = ('raises', type(e).__name__), False
    if not ok:
        acc.fail('leap-second', {'input': repr(m2), 'got': repr(b2)},
                 {'marshal': [inst.isoformat(), tzk], 'leap': True})
        return
    # marshall_now() without argument uses the overridden clock
    timeutils.set_time_override(inst)
    try:
        m3 = timeutils.marshall_now()
        if timeutils.unmarshall_time(m3) != inst:
            acc.fail('marshall-now-override', {'override': repr(inst), 'got': repr(m3)},
                     {'marshal': [inst.isoformat(), tzk], 'override': True})
    finally:
        timeutils.clear_time_override()


def run(ctx):
    rep = ctx.new_report()
    depth = 6 if ctx.thorough else 5
    acts = clock_actions(ctx.thorough)
    res = par.pmap(_clock_job, [(depth, ctx.thorough, i) for i in range(len(acts))])
    for counters, fails, nstates in res:
        rep.counters.update({k: v for k, v in counters.items() if k != 'max_depth'})
        for i in range(nstates):
            rep.count('clock_states_reached')
        for f in fails:
            rep.fail('clock:%s:%s' % (f['problem']['kind'], f['history'][-1][0]),
                     {'history': f['history'], 'problem': f['problem']},
                     {'clock': f['history']})
    rep.count('evaluations', rep.counters['transitions'])
    offs = [None, 'floating'] + OFFSETS + ZONES
    E.run(rep, 'normalize', [TZS, NORM_INSTANTS, offs], _norm_case)
    ds = MARGINS
    E.run(rep, 'comparisons', [TZS if ctx.thorough else TZS[:2], CMP_NOWS if ctx.thorough else CMP_NOWS[:2],
                               ds, MARGINS, FORMS], _cmp_case)
    E.run(rep, 'huge-ages', [HUGE, FORMS], _huge_case)
    E.run(rep, 'dst-windows', [DST_ZONES, [0, 1], [1800, 1, 0, -1800, 3600, 5400],
                               [0, 1, 1800, 3600, 7200, 5400.5], [-3600000000, -1, 0, 1, 3600000000]],
          _dst_case)
    E.run(rep, 'marshalling', [INSTANTS + [DT(2015, 6, 30, 23, 59, 59, 1), DT(2024, 7, 1, 12, 30)],
                               ['naive', 'utc', 'iso8601', 'zoneinfo'], TZS + ['JST-9']], _marshal_case)
    rep.sample({'clock_history': [['set', 6], ['adv_seconds', 6], ['adv_seconds', 6]],
                'meaning': 'override 1970-01-01T00:00:01.5, advance -1 s twice, query after each'})
    rep.sample({'is_older_than': {'now': '2000-02-29T23:59:59.999999', 'age_s': 60.5,
                                  'seconds': 60.25, 'form': 'aware+05:00'}})
    rep.notes['rule'] = (
        'BFS over override-clock op sequences (states merged on the overridden '
        'instant + fixture flag; the four queries compared after every '
        'transition) plus complete products for normalize/parse (TZ x instants '
        'x offsets), comparisons (TZ x now x age x margin x argument form) and '
        'marshalling; non-trivial counts distinct product cases.')
    rep.notes['bounds'] = {'clock_depth': depth, 'clock_actions': len(acts),
                           'instants': [i.isoformat() for i in INSTANTS],
                           'margins': MARGINS, 'forms': FORMS, 'host_TZ': TZS,
                           'offsets': [str(o) for o in OFFSETS] + ZONES}
    rep.counters['states'] = rep.counters.get('states', 0)
    return rep


def replay(payload):
    from oslo_utils import timeutils
    acc = _Acc()
    if 'clock' in payload:
        node = seq.Node(None, RefClock(), (), {'acts': clock_actions(True)})
        for act in payload['clock']:
            node, p = clock_step(node, (act[0], act[1]))
            if p is not None:
                return {'violates': True, 'problem': p}
        return {'violates': False}
    if 'norm' in payload:
        iso, off, tz = payload['norm']
        inst = DT.fromisoformat(iso)
        o = None if off is None else 'floating' if off == 'floating' else \
            eval(off, {'datetime': datetime})   # repr of timedelta / zone name
        _norm_case((tz, inst, o), acc)
    elif 'huge' in payload:
        d, sec, us, thr, form = payload['huge']
        _huge_case(((TD(days=d, seconds=sec, microseconds=us), thr), form), acc)
    elif 'dst' in payload:
        _dst_case(tuple(payload['dst']), acc)
    elif 'cmp' in payload:
        iso, d, s, form, tz = payload['cmp']
        _cmp_case((tz, DT.fromisoformat(iso), d, s, form), acc)
    else:
        iso, tzk = payload['marshal'][:2]
        tz = payload['marshal'][2] if len(payload['marshal']) > 2 else 'UTC0'
        _marshal_case((DT.fromisoformat(iso), tzk, tz), acc)
    timeutils.clear_time_override()
    return {'violates': bool(acc.fails), 'problems': acc.fails}


class _Acc:
    def __init__(self):
        self.fails = []

    def fail(self, cls, summary, payload, sigs=()):
        self.fails.append({'class': cls, 'summary': summary})

    def count(self, *a):
        pass

    def nontrivial(self, *a):
        pass
