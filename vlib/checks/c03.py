"""C03 - format detection is exclusive, conservative about raw, and total.

Engine A at wrapper level: contents obtained by overlaying every compatible
subset of the format signatures (and the FAT look-alike) on zero / seeded /
text backgrounds at lengths on both sides of each inspector's decision point,
valid images, polyglots and unstructured streams; x allowed_formats family;
x all read sequences over a cut set, with the decision sampled in every state;
plus detect_file_format on a real file.

Oracle: byte-level signature reference SIG(F) / DM(F) (signature present and
stream long enough for F to decide): (a) a named non-raw format has its
signature present and is the only one reported, (b) >= 2 definite matches
=> ImageFormatError, (c) raw => no definite match and raw allowed, (d) raw
never alongside another name, (e) a reported decision is never revised,
(f) every reported name is allowed, (g) nothing but ImageFormatError escapes.
"""
import os
import shutil
import tempfile
import time

from vlib import par
from vlib.checks.c01 import pack, unpack
from vlib.img import build as B
from vlib.img import family as F

PROPERTY = 'C03'
LEVEL = 'model_checking'
ENGINE = 'A'
TECHNIQUE = ('explicit-state exploration of the real InspectWrapper over all '
             'read sequences of a cut set on signature-overlay contents x '
             'allowed_formats; decision sampled in every state; byte-level '
             'signature reference')
LEVEL_TEXT = ('Every compatible subset of the nine signatures (+ FAT '
              'look-alike) on three backgrounds and at lengths around every '
              'decision point is read through the real InspectWrapper under '
              'all subsets of the cut positions; the one-directional clauses '
              '(a)-(g) are evaluated at every terminal state, no-revision and '
              'totality in every intermediate state, and on detect_file_format '
              'for the same content on disk; a sub-family is crossed with 31 '
              'allowed_formats settings.')
LEVEL_NOTE = ('Trusted: the byte-level signature reference (sig_present). '
              'Clauses are one-directional on purpose (DESIGN.md sec. 8). '
              'Contents are signature overlays, valid images and unstructured '
              'streams - not all byte strings.')

ALL = ['raw', 'qcow2', 'vhd', 'vhdx', 'vmdk', 'vdi', 'qed', 'iso', 'gpt', 'luks']
OFF0 = [None, 'qcow2', 'qed', 'vhd', 'vhdx', 'vmdk', 'luks', 'qcow2v1', 'qcow2v0']
DECISION = {'qcow2': 512, 'qed': 512, 'vhd': 512, 'vhdx': 262144, 'vmdk': 64,
            'luks': 592, 'vdi': 512, 'gpt': 512, 'iso': 34816}
BIG = 300 * 1024
# where each format's fixed signature sits: (offset, length)
SIG_AT = {'qcow2': (0, 4), 'qed': (0, 4), 'vhd': (0, 8), 'vhdx': (0, 8), 'vmdk': (0, 4),
          'luks': (0, 6), 'vdi': (0x40, 4), 'gpt': (510, 2), 'iso': (32769, 5)}
_CONTENTS = []


def sig_present(data):
    """Reference: which formats' signatures are present in the bytes."""
    s = set()
    if data[:4] == b'QFI\xfb':
        s.add('qcow2')
    if data[:4] == b'QED\x00':
        s.add('qed')
    if data[:8] == b'conectix':
        s.add('vhd')
    if data[:8] == b'vhdxfile':
        s.add('vhdx')
    if data[:4] == b'KDMV':
        s.add('vmdk')
    elif b'createtype="' in data[:(1 << 20)].split(b'\x00', 1)[0].lower():
        s.add('vmdk')          # text descriptor form: the descriptor is text, it ends at the first NUL
    if data[:6] == b'LUKS\xba\xbe':
        s.add('luks')
    if data[0x40:0x44] == b'\x7f\x10\xda\xbe':
        s.add('vdi')
    if data[510:512] == b'\x55\xaa' and not (data[0x10] == 2 and data[0x15] == 0xF8):
        s.add('gpt')
    if data[32769:32774] in (b'CD001', b'NSR02', b'NSR03'):
        s.add('iso')
    return s


def definite(data):
    """Formats whose signature is present *and* whose inspector has seen enough
    to say so (conservative thresholds)."""
    L = len(data)
    need = {'qcow2': 512, 'qed': 512, 'vhd': 8, 'vhdx': 8, 'vmdk': 4, 'luks': 6,
            'vdi': 512, 'gpt': 512, 'iso': 34816}
    out = set()
    for f in sig_present(data):
        if f == 'vmdk' and data[:4] != b'KDMV':
            continue
        if L >= need[f]:
            out.add(f)
    return out


def make_content(r):
    kind = r[0]
    if kind == 'overlay':
        _, off0, vdi, mbr, iso, bg, length = r
        base = {'zeros': bytes(length), 'seeded': B.raw('random', max(length, 8), 7).data[:length],
                'text': B.raw('text', length).data}[bg]
        parts = []
        if off0 == 'qcow2':
            parts.append((0, B.qcow2(length=104).data[:104]))
        elif off0 in ('qcow2v1', 'qcow2v0'):
            parts.append((0, B.qcow2(version=int(off0[-1]), length=104).data[:104]))
        elif off0 == 'qed':
            parts.append((0, B.qed().data[:64]))
        elif off0 == 'vhd':
            parts.append((0, B.vhd().data[:64]))
        elif off0 == 'vhdx':
            parts.append((0, b'vhdxfile'))
        elif off0 == 'vmdk':
            parts.append((0, B.vmdk_header()[:64]))
        elif off0 == 'luks':
            parts.append((0, B.luks(length=592).data[:112]))
        if vdi:
            parts.append((0x40, b'\x7f\x10\xda\xbe'))
        if mbr == 'mbr':
            parts.append((446, B.mbr([B.PTE_LINUX]).data[446:512]))
        elif mbr == 'mbr-lba0':          # isohybrid style: a partition that starts at LBA 0
            parts.append((446, B.mbr([dict(B.PTE_LINUX, ostype=0x17, lba=0, boot=0x80)]).data[446:512]))
        elif mbr == 'gpt-protective':
            parts.append((446, B.mbr([B.PTE_GPT]).data[446:512]))
        elif mbr == 'fat+table':         # FAT boot sector look-alike that also carries a partition entry
            parts.append((446, B.mbr([B.PTE_LINUX]).data[446:512]))
            parts.append((0x10, b'\x02'))
            parts.append((0x15, b'\xf8'))
            parts.append((462, B.mbr([B.PTE_NTFS]).data[446:462]))
        elif mbr == 'fat':
            parts.append((446, B.mbr([B.PTE_LINUX]).data[446:512]))
            parts.append((0x10, b'\x02'))
            parts.append((0x15, b'\xf8'))
        if iso:
            # 1: primary volume descriptor; 2: UDF (NSR03, descriptor type 0); 3: a supplementary
            # descriptor (type 2) - the identifier is the signature, whatever the type byte says
            parts.append((32768, {1: b'\x01CD001\x01', 2: b'\x00NSR03\x01', 3: b'\x02CD001\x01'}[iso]))
        d = bytearray(base)
        for off, blob in parts:
            blob = blob[:max(0, length - off)]
            d[off:off + len(blob)] = blob
        return bytes(d[:length])
    if kind == 'image':
        return r[1]
    raise ValueError(kind)


def recipes(ctx):
    out = []
    bgs = ['zeros', 'seeded', 'text']
    n = 0
    for off0 in OFF0:
        for vdi in (0, 1):
            for mbr in (None, 'mbr', 'fat', 'mbr-lba0', 'gpt-protective', 'fat+table'):
                for iso in (0, 1, 2, 3):
                    if iso >= 2 and (vdi or mbr in ('fat', 'fat+table', 'mbr-lba0') or
                                     off0 not in (None, 'qcow2')):
                        continue            # the extra ISO kinds: alone, with qcow2, with an MBR
                    n += 1
                    out.append(('overlay', off0, vdi, mbr, iso, 'zeros', BIG))
                    if ctx.thorough:
                        out.append(('overlay', off0, vdi, mbr, iso, 'seeded', BIG))
                        out.append(('overlay', off0, vdi, mbr, iso, 'text', BIG))
                    else:
                        out.append(('overlay', off0, vdi, mbr, iso, bgs[1 + (n + ctx.seed) % 2], BIG))
                    present = [f for f, on in ((off0[:5] if off0 and off0.startswith('qcow2') else off0, off0),
                                               ('vdi', vdi), ('gpt', mbr), ('iso', iso)) if on]
                    points = sorted({DECISION[f] for f in present} | ({592} if off0 == 'luks' else set()))
                    for dp in points:
                        for ln in (dp - 1, dp, dp + 1):
                            out.append(('overlay', off0, vdi, mbr, iso, 'zeros', ln))
                            if ctx.thorough:
                                out.append(('overlay', off0, vdi, mbr, iso, 'text', ln))
    for im in F.wellformed(ctx.seed, ctx.thorough) + F.polyglots(ctx.seed) + F.unstructured(ctx.seed):
        out.append(('image', im.data, im.name, list(im.bounds)))
    # text descriptor forms and KDMV with unparsable bodies
    extra = [B.vmdk_text().data, B.vmdk_text(ctype='monolithicSparse').data,
             b'KDMV' + bytes(2000), b'vhdxfile' + bytes(BIG),
             F.overlay(b'KDMV' + bytes(1020), (446, B.mbr([B.PTE_LINUX]).data[446:512])),
             F.overlay(b'vhdxfile' + bytes(BIG), (446, B.mbr([B.PTE_LINUX]).data[446:512]))]
    # text, then a NUL, then ...: where the descriptor text ends
    T = B.raw('text', 512).data
    TC = (b'# Disk DescriptorFile\nversion=1\ncreateType="monolithicSparse"\nRW 16 SPARSE "a.vmdk"\n' +
          b'# pad\n' * 90)[:512]
    CT = b'createType="monolithicSparse"\nRW 1 SPARSE "a"\n'
    for head in (T, TC, T[:300], TC[:300]):
        for tail in (b'', b'\x00', b'\x00\x80', b'\x00' + CT, b'\x00' * 100 + CT, b'\x80', b'\x00' + T,
                     b'\x00\x80' + bytes(600), b'\x00' + CT + bytes(3000)):
            extra.append(head + tail)
    # containers that are valid up to a second-level structure (an inspector fails while one of
    # its regions is still open), alone and with a second signature
    vm = [w for w in F.wellformed(ctx.seed, False) if w.fmt == 'vmdk']
    for w in vm[:2]:
        for m in F.field_mutations(w, ctx.seed):
            extra.append(m.data)
    for ver in (1, 3, 9):
        for gd in (None, B.GD_AT_END):
            for ds in (0, 1, 2):
                h = B.vmdk_header(2048, ver, ds, 1, gd)
                body = h + B.vmdk_descriptor() + bytes(2048)
                extra.append(body)
                extra.append(F.overlay(body, (446, B.mbr([B.PTE_LINUX]).data[446:512])))
    from vlib.checks.c02 import FOOTER_OVERS
    for over, _c in FOOTER_OVERS:
        o = dict(over)
        if o.get('version') == 'other':
            o['version'] = 2
        d = B.vmdk(footer='good', footer_over=o, ctype='streamOptimized', desc_num=1, grain_fill=64).data
        extra.append(d)
        extra.append(F.overlay(d, (446, B.mbr([B.PTE_LINUX]).data[446:512])))
    vx = [w for w in F.wellformed(ctx.seed, False) if w.fmt == 'vhdx'][:1]
    for w in vx:
        muts = F.field_mutations(w, ctx.seed)
        for m in (muts if ctx.thorough else muts[::6]):
            extra.append(m.data)
            if ctx.thorough:
                extra.append(F.overlay(m.data, (446, B.mbr([B.PTE_LINUX]).data[446:512])))
    # VHDX images complete up to the size item, whose declared length is not 8
    for il in (0, 4, 16, 65536):
        extra.append(B.vhdx(item_length=il, tail=4096).data)
    extra.append(B.gpt_disk().data)
    # the FAT exclusion needs BOTH boot-sector fields: every pair of values around them
    for nf in (1, 2, 3):
        for md in (0xF0, 0xF7, 0xF8, 0xF9):
            extra.append(F.overlay(B.mbr([B.PTE_LINUX]).data, (0x10, bytes([nf])), (0x15, bytes([md]))))
    # signature near-misses: a clean image of each format with ONE byte of its signature
    # altered (low bit, letter case, high bit, zeroed) - nothing may still be named that format
    done = set()
    for w in F.wellformed(ctx.seed, False):
        if w.fmt not in SIG_AT or w.fmt in done:
            continue
        off, n = SIG_AT[w.fmt]
        if w.fmt == 'vmdk' and w.data[:4] != b'KDMV':
            continue
        if len(w.data) < off + n:
            continue
        done.add(w.fmt)
        for k in range(n):
            alts = [w.data[off + k] ^ 0x01, w.data[off + k] ^ 0x20]
            if ctx.thorough:
                alts += [w.data[off + k] ^ 0x80, 0x00, 0xff]
            for v in alts:
                if v != w.data[off + k]:
                    extra.append(w.data[:off + k] + bytes([v]) + w.data[off + k + 1:])
    seen = set()
    for i, d in enumerate(extra):
        if d in seen:
            continue
        seen.add(d)
        out.append(('image', d, 'extra%d' % i, []))
    return out


def allowed_family():
    fam = [None]
    fam += [[f] for f in ALL]
    fam += [['raw', f] for f in ALL if f != 'raw']
    fam += [[f for f in ALL if f != 'raw']]
    fam += [[f for f in ALL if f != x] for x in ALL if x != 'raw']
    return fam


def judge(data, allowed, decision, fmt):
    """Clauses (a)-(d), (f), (g) on one observation. decision/fmt are the
    harness encodings of `formats` / `format`. -> list of violated clauses."""
    bad = []
    allowed_set = set(ALL) if not allowed else set(allowed)
    sig = sig_present(data)
    dm = definite(data) & allowed_set
    names = None
    if decision is not None:
        if decision[0] == 'raises':
            bad.append(('g-formats-raises', decision[1]))
        else:
            names = list(decision[1])
    if fmt is not None and fmt[0] == 'raises' and fmt[1] != 'ImageFormatError':
        bad.append(('g-format-raises', fmt[1]))
    if names is not None:
        if 'raw' in names and len(names) > 1:
            bad.append(('d-raw-with-others', names))
        for nme in names:
            if nme not in allowed_set:
                bad.append(('f-not-allowed', nme))
            if nme != 'raw' and nme not in sig:
                bad.append(('a-named-without-signature', nme))
    if fmt is not None and fmt[0] == 'fmt':
        name = fmt[1]
        if name != 'raw':
            if name not in sig:
                bad.append(('a-format-without-signature', name))
            if names is not None and names != [name]:
                bad.append(('a-format-not-exclusive', names))
        else:
            if dm:
                bad.append(('c-raw-despite-definite-match', sorted(dm)))
            if 'raw' not in allowed_set:
                bad.append(('c-raw-not-allowed', None))
        if name not in allowed_set:
            bad.append(('f-format-not-allowed', name))
    if len(dm) >= 2 and fmt is not None and fmt != ('raises', 'ImageFormatError'):
        bad.append(('b-two-matches-no-error', sorted(dm)))
    return bad


def _job(job):
    idx, allowed, ncuts, seed, tmpdir = job
    from vlib.mc import stream as S
    r = _CONTENTS[idx]
    data = make_content(r)
    L = len(data)
    t0 = time.time()
    # allowed_formats is passed by keyword or as the third positional argument
    system = S.WrapperSystem(allowed=allowed, positional=bool(allowed) and idx % 2 == 0)
    base = [4, 64, 512, 592, 34816, 262144, 8, 510, 32768, 196608, 6, 1024, 65536]
    cuts = sorted(c for c in base[:ncuts + 6] if 0 < c < L)[:64]
    if len(cuts) > ncuts:
        keep = [c for c in base if c in cuts][:ncuts]
        cuts = sorted(keep)
    if L > 3:
        cuts = sorted(set(cuts) | {1 + (seed * 7919 + idx * 31) % (L - 1)})
    if r[0] == 'image' and r[3]:
        from vlib.checks.c01 import spread
        cuts = sorted(set(cuts) | set(x for x in spread(r[3], 4) if 0 < x < L))
    probs = []
    nstate = [0]

    def on_state(obj, p, path, res):
        nstate[0] += 1
        d = S.wrapper_decision(obj)
        f, _ = S.wrapper_format(obj)
        for who, v in (('formats', d), ('format', f)):
            if v is not None and v[0] == 'raises' and not (
                    who == 'format' and v[1] == 'ImageFormatError'):
                if len(probs) < 5:
                    probs.append({'clause': 'g-%s-raises-midstream' % who, 'detail': v[1],
                                  'path': list(path)})

    res = S.explore(system, data, cuts, check_purity=False, check_regions=False,
                    on_state=on_state)
    for f in res.failures:
        if len(probs) < 8:
            probs.append({'clause': f['inv'], 'detail': f['detail'], 'path': f['path']})
    outcomes = set()
    for v, path in res.verdicts.items():
        if v[0] in ('error', 'finish-error'):
            probs.append({'clause': 'g-read-or-close-raises', 'detail': v, 'path': list(path)})
            continue
        decision, fmt = v[0], v[1]
        outcomes.add(repr((decision, fmt)))
        for clause, detail in judge(data, allowed, decision, fmt):
            if len(probs) < 8:
                probs.append({'clause': clause, 'detail': detail, 'path': list(path),
                              'decision': decision, 'format': fmt})
    # the same content handed over as a re-used bytearray / memoryview slices
    if ncuts >= 6 or idx % 5 == 0:
        for kind in ('bytearray', 'memoryview'):
            tv, _tb = S.typed_run('wrapper', data, cuts[:5], kind, allowed)
            if tv[0] in ('error', 'transparency-broken'):
                probs.append({'clause': 'g-typed-chunks-raise', 'detail': [kind, tv], 'path': ['typed', kind]})
                continue
            for clause, detail in judge(data, allowed, tv[0], tv[1]):
                probs.append({'clause': clause + ':' + kind + '-chunks', 'detail': detail,
                              'path': ['typed', kind], 'decision': tv[0], 'format': tv[1]})
    # detect_file_format on the same content (allowed_formats is not a parameter there)
    file_obs = None
    if allowed is None and tmpdir:
        from oslo_utils.imageutils import format_inspector as fi
        path = os.path.join(tmpdir, 'c-%d-%d' % (os.getpid(), idx))
        with open(path, 'wb') as fh:
            fh.write(data)
        try:
            insp = fi.detect_file_format(path)
            file_obs = ('fmt', str(insp)) if insp is not None else None
        except Exception as e:
            file_obs = ('raises', type(e).__name__)
        os.unlink(path)
        if file_obs is None:
            probs.append({'clause': 'g-detect-returned-none', 'detail': None, 'path': ['file']})
        for clause, detail in judge(data, None, None, file_obs):
            probs.append({'clause': clause + ':detect_file_format', 'detail': detail,
                          'path': ['file'], 'format': file_obs})
    return {'idx': idx, 'allowed': allowed, 'states': res.states,
            'transitions': res.transitions,
            'comparisons': res.comparisons + nstate[0] + len(res.verdicts) + (1 if file_obs else 0),
            'probs': probs, 'outcomes': sorted(outcomes), 'ncuts': len(cuts),
            'decisions': res.decisions, 'caps': res.caps, 'file': file_obs,
            'ms': int((time.time() - t0) * 1000)}


def name_of(r):
    if r[0] == 'overlay':
        return 'overlay(off0=%s vdi=%s mbr=%s iso=%s bg=%s len=%d)' % tuple(r[1:])
    return r[2]


def run(ctx):
    global _CONTENTS
    from vlib.mc import stream as S    # noqa: F401
    from vlib.ref import findings
    rep = ctx.new_report()
    _CONTENTS = recipes(ctx)
    tmpdir = tempfile.mkdtemp(prefix='verif-c03-')
    try:
        jobs = []
        ncuts = 9 if ctx.thorough else 6
        for idx, r in enumerate(_CONTENTS):
            jobs.append((idx, None, ncuts, ctx.seed, tmpdir))
        fam = allowed_family()[1:]
        for idx, r in enumerate(_CONTENTS):
            big_zero = r[0] == 'overlay' and r[5] == 'zeros' and r[6] == BIG
            if big_zero or (r[0] == 'image' and (ctx.thorough or idx % 3 == 0)):
                for al in fam:
                    jobs.append((idx, al, 3 if not ctx.thorough else 4, ctx.seed, None))
        jobs.sort(key=lambda j: -(_CONTENTS[j[0]][6] if _CONTENTS[j[0]][0] == 'overlay'
                                  else len(_CONTENTS[j[0]][1])) * (j[2] + 1))
        all_outcomes = set()
        for r in par.pmap(_job, jobs, chunksize=4):
            rec = _CONTENTS[r['idx']]
            rep.count('states', r['states'])
            rep.count('transitions', r['transitions'])
            rep.count('traces_validated_against_impl', r['comparisons'])
            rep.count('evaluations')
            rep.count('states_with_decision', r['decisions'])
            rep.count('detect_file_format_runs', 1 if r['file'] else 0)
            rep.count('cpu_ms', r['ms'])
            for c in r['caps']:
                rep.caps_hit.append(c)
            for o in r['outcomes']:
                all_outcomes.add(o)
            if r['ncuts'] >= 2:
                rep.nontrivial('%d/%r' % (r['idx'], r['allowed']))
            if r['probs']:
                data = make_content(rec)
                sigs = []
                if findings.f1_vmdk_text(data):
                    sigs.append('F1-vmdk-text-descriptor')
                for p in r['probs']:
                    rep.fail('%s' % p['clause'],
                             {'content': name_of(rec), 'allowed': r['allowed'],
                              'clause': p['clause'], 'detail': p['detail'],
                              'decision': p.get('decision'), 'format': p.get('format'),
                              'path': p['path'][-5:]},
                             {'image': pack(data), 'content': name_of(rec),
                              'allowed': r['allowed'], 'path': p['path'],
                              'clause': p['clause']},
                             sigs=[])
        rep.count('distinct_decision_outcomes', len(all_outcomes))
        rep.count('contents', len(_CONTENTS))
    finally:
        shutil.rmtree(tmpdir, ignore_errors=True)
    for r in (_CONTENTS[5], _CONTENTS[len(_CONTENTS) // 2], _CONTENTS[-1]):
        rep.sample({'content': name_of(r)})
    rep.notes['rule'] = (
        'one exploration = (content, allowed_formats): all subsets of the cut '
        'set read through the real InspectWrapper, clauses (a)-(g) at every '
        'terminal state, no-revision/totality in every state, plus '
        'detect_file_format on disk when allowed_formats is None. Non-trivial '
        '= at least 2 cut positions; counted once per (content, allowed).')
    rep.notes['bounds'] = {'contents': len(_CONTENTS), 'allowed_formats_family': len(allowed_family()),
                           'cuts_per_exploration': ncuts + 1}
    rep.notes['assumptions'] = ['sig_present() is the byte-level definition of "signature present"']
    return rep


def replay(payload):
    from vlib.mc import stream as S
    from oslo_utils.imageutils import format_inspector as fi
    data = unpack(payload['image'])
    allowed = payload['allowed']
    clause = payload['clause']
    if payload['path'][:1] == ['typed']:
        tv, _tb = S.typed_run('wrapper', data, [4, 64, 512, 592, 34816], payload['path'][1], allowed)
        if tv[0] in ('error', 'transparency-broken'):
            return {'violates': True, 'typed_verdict': repr(tv)}
        bad = [c for c, _ in judge(data, allowed, tv[0], tv[1])]
        return {'violates': bool(bad), 'typed_verdict': repr(tv), 'clauses': bad}
    if payload['path'] == ['file']:
        tmpdir = tempfile.mkdtemp(prefix='verif-c03-')
        try:
            p = os.path.join(tmpdir, 'img')
            with open(p, 'wb') as f:
                f.write(data)
            try:
                insp = fi.detect_file_format(p)
                obs = ('fmt', str(insp)) if insp is not None else None
            except Exception as e:
                obs = ('raises', type(e).__name__)
        finally:
            shutil.rmtree(tmpdir, ignore_errors=True)
        bad = [c for c, _ in judge(data, None, None, obs)]
        out = {'violates': bool(bad) or obs is None, 'detect_file_format': obs, 'clauses': bad}
        if 'b-two-matches-no-error' in bad:
            # which of several matches a (broken) detection names follows the
            # iteration order of a set of objects hashed by id
            out['_ignore_in_divergence_check'] = ['detect_file_format']
        return out
    system = S.WrapperSystem(allowed=allowed, positional=bool(allowed))
    obj, trace = S.replay_path(system, data, payload['path'])
    ds = [t.get('decision') for t in trace if 'decision' in t]
    last = trace[-1] if trace else {}
    if 'verdict' in last:
        decision, fmt = last['verdict'][0], last['verdict'][1]
        ds.append(decision)
    else:
        decision = S.wrapper_decision(obj)
        fmt, _ = S.wrapper_format(obj)
    bad = [c for c, _ in judge(data, allowed, decision, fmt)]
    firm = [d for d in ds if d is not None]
    revised = len(set(map(repr, firm))) > 1 or (
        bool(firm) and any(d is None for d in ds[ds.index(firm[0]):]))
    mid = [x for x in (decision, fmt) if x is not None and x[0] == 'raises' and
           x != ('raises', 'ImageFormatError')]
    if clause.startswith('I5'):
        v = revised
    elif clause.startswith('g-') and 'midstream' in clause:
        v = bool(mid) or (decision is not None and decision[0] == 'raises')
    elif 'raised' in last:
        v = True
    else:
        v = bool(bad)
    out = {'violates': bool(v), 'decisions_along_path': ds, 'format': fmt, 'clauses': bad}
    if decision is not None and decision[0] == 'fmts' and len(decision[1]) > 1:
        # several matches: which one a (broken) `format` hands out follows the
        # iteration order of a set of objects hashed by id - not reproducible
        out['_ignore_in_divergence_check'] = ['format']
    return out
