"""C20 - file helpers agree with whole-file semantics and are idempotent.

Engine C + fault enumeration: compute_file_checksum over file sizes around every
chunk-size multiple x chunk sizes x hash algorithms; last_bytes over n around
the size and huge n; write_to_tempfile into existing and missing directory
levels; every errno injected into os.makedirs (path absent / directory / file)
and into the remove callable of delete_if_exists.
"""
import errno
import hashlib
import os
import shutil
import tempfile
from unittest import mock

from vlib.img.build import filler
from vlib.mc import enum as E

PROPERTY = 'C20'
LEVEL = 'fault_enumeration'
ENGINE = 'C'
TECHNIQUE = ('stateless bounded model checking: complete enumeration of sizes x chunk sizes x algorithms '
             'against whole-file semantics, and exhaustive errno injection at '
             'every call site (os.makedirs, remove callable)')
LEVEL_TEXT = ('Every file size in {0, 1, c-1, c, c+1, 2c-1, 2c, 2c+1, 3c} for '
              'every chunk size c in {1, 2, 7, 64, 4096, 65536, size+1} is '
              'hashed with every fixed-length algorithm hashlib guarantees and '
              'compared with the digest of the whole content; last_bytes is '
              'asked for n in {0, 1, size-1, size, size+1, 2^40, 2^62}; '
              'the same for sparse files (holes at start / middle / end); '
              'write_to_tempfile creates 5 files in 0..3 missing directory '
              'levels and is given 8 buffer kinds (item sizes 1..8) x item counts around '
              '2^16 and 2^17; ensure_tree is run on every path of 1..3 (and 4 with "..") '
              'components over {new, existing dir, symlink to a dir, dangling symlink, file, '
              '"..", "."} against os.makedirs in a twin directory; every errno known to the platform is injected into '
              'os.makedirs (three path states) and into the remove callable: '
              'swallowed exactly for EEXIST-on-a-directory resp. ENOENT, else '
              'the same exception object propagates.')
LEVEL_NOTE = ('Real files in a private temporary directory; contents are '
              'seed-derived non-repeating bytes. Only errno injection through '
              'the documented seams (os.makedirs, the `remove` parameter).')

_TMP = [None]


def tmpdir():
    if _TMP[0] is None or not os.path.isdir(_TMP[0]):
        _TMP[0] = tempfile.mkdtemp(prefix='verif-c20-%d-' % os.getpid())
    return _TMP[0]


def algorithms():
    out = []
    for a in sorted(hashlib.algorithms_guaranteed):
        try:
            if hashlib.new(a).digest_size:
                out.append(a)
        except (ValueError, TypeError):
            pass
    return [a for a in out if not a.startswith('shake_')]


def _sum_case(vals, acc):
    from oslo_utils import fileutils
    c, k, seed = vals
    if c == 'size+1':
        sizes = [0, 1, 7, 4097]
    elif c == 'big':
        sizes = [(1 << 20) + 1, (1 << 22) + 3, 3 * 65536 + 65535]
    else:
        sizes = sorted({0, 1, c - 1, c, c + 1, 2 * c - 1, 2 * c, 2 * c + 1, 3 * c})
    if k >= len(sizes):
        return
    size = sizes[k]
    chunk = size + 1 if c == 'size+1' else (65536 if c == 'big' else c)
    content = filler(seed, size, size % 251)
    path = os.path.join(tmpdir(), 'sum-%s-%d' % (c, size))
    with open(path, 'wb') as f:
        f.write(content)
    try:
        for alg in algorithms():
            acc.counters['checksum_calls'] += 1
            want = hashlib.new(alg, content).hexdigest()
            try:
                got = fileutils.compute_file_checksum(path, read_chunksize=chunk, algorithm=alg)
            except Exception as e:
                got = 'raises ' + type(e).__name__
            if got != want:
                acc.fail('checksum', {'size': size, 'read_chunksize': chunk, 'algorithm': alg,
                                      'got': got, 'want': want},
                         {'sum': [size, chunk, alg, seed]})
                return
        acc.nontrivial('sum%r' % ((size, chunk),))
        # the path given as pathlib.Path / bytes / a str subclass
        import pathlib

        class PathStr(str):
            pass
        for alt in (pathlib.Path(path), os.fsencode(path), PathStr(path)):
            acc.counters['checksum_calls'] += 1
            try:
                g1 = fileutils.compute_file_checksum(alt, read_chunksize=chunk, algorithm='sha1')
                g2 = fileutils.last_bytes(alt, 3)
            except Exception as e:
                g1 = g2 = 'raises ' + type(e).__name__
            if g1 != hashlib.sha1(content).hexdigest() or g2 != (content[max(0, size - 3):], max(0, size - 3)):
                acc.fail('path-type:%s' % type(alt).__name__, {'size': size, 'got': [g1, repr(g2)[:60]]},
                         {'sum': [size, chunk, 'sha1', seed]})
                return
        # default arguments
        if fileutils.compute_file_checksum(path) != hashlib.sha256(content).hexdigest():
            acc.fail('checksum-defaults', {'size': size}, {'sum': [size, 65536, 'sha256', seed]})
        # last_bytes on the same file
        for n in sorted({0, 1, max(size - 1, 0), size, size + 1, 2 * size + 1000, 1 << 40, 1 << 62,
                         4095, 4096, 4097, 8192, 65536, 65537}):
            acc.counters['last_bytes_calls'] += 1
            take = min(n, size)
            want = (content[size - take:], size - take)
            try:
                got = fileutils.last_bytes(path, n)
            except BaseException as e:
                got = 'raises ' + type(e).__name__
            if got != want:
                acc.fail('last_bytes', {'size': size, 'num': n,
                                        'got': repr(got)[:120], 'want': repr(want)[:120]},
                         {'last': [size, n, seed]})
                return
    finally:
        os.unlink(path)


def _sparse_case(vals, acc):
    """The same whole-file semantics for files whose zeros were never written (holes):
    how the bytes got there - write() or truncate()/seek() - is not content."""
    from oslo_utils import fileutils
    size, layout, chunk, seed = vals
    data = filler(seed, size, 7)
    cut1, cut2 = size // 3, (2 * size) // 3
    if layout == 'hole-at-end':
        content = data[:cut1] + bytes(size - cut1)
    elif layout == 'hole-in-middle':
        content = data[:cut1] + bytes(cut2 - cut1) + data[cut2:]
    elif layout == 'hole-at-start':
        content = bytes(cut2) + data[cut2:]
    elif layout == 'all-hole':
        content = bytes(size)
    else:                                   # 'two-holes'
        q = size // 5
        content = data[:q] + bytes(q) + data[2 * q:3 * q] + bytes(size - 3 * q)
    path = os.path.join(tmpdir(), 'sparse-%s-%d-%d' % (layout, size, chunk))
    with open(path, 'wb') as f:
        # write only the non-zero runs; everything else is left as a hole
        i = 0
        while i < size:
            if content[i]:
                j = i
                while j < size and content[j]:
                    j += 1
                f.seek(i)
                f.write(content[i:j])
                i = j
            else:
                i += 1
        f.truncate(size)
    try:
        acc.nontrivial(repr(vals))
        with open(path, 'rb') as f:
            if f.read() != content:
                return                      # the file system did something else: not our business
        for alg in ('sha256', 'md5'):
            acc.counters['checksum_calls'] += 1
            want = hashlib.new(alg, content).hexdigest()
            try:
                got = fileutils.compute_file_checksum(path, read_chunksize=chunk, algorithm=alg)
            except Exception as e:
                got = 'raises ' + type(e).__name__
            if got != want:
                acc.fail('checksum-sparse-file', {'size': size, 'layout': layout, 'read_chunksize': chunk,
                                                  'algorithm': alg, 'got': got, 'want': want},
                         {'sparse': [size, layout, chunk, seed]})
                return
        for n in (1, size // 2, size, size + 1):
            acc.counters['last_bytes_calls'] += 1
            take = min(n, size)
            try:
                got = fileutils.last_bytes(path, n)
            except BaseException as e:
                got = 'raises ' + type(e).__name__
            if got != (content[size - take:], size - take):
                acc.fail('last_bytes-sparse-file', {'size': size, 'layout': layout, 'num': n,
                                                    'got': repr(got)[:80]},
                         {'sparse': [size, layout, chunk, seed]})
                return
    finally:
        os.unlink(path)


CONTENT_KINDS = ['bytes', 'bytearray', 'memoryview', 'memoryview-H', 'memoryview-Q', 'array-H', 'array-I',
                 'array-d']


def make_content(kind, items, seed):
    """-> (object handed to write_to_tempfile, the bytes the file must hold)"""
    import array
    isz = {'bytes': 1, 'bytearray': 1, 'memoryview': 1, 'memoryview-H': 2, 'memoryview-Q': 8,
           'array-H': 2, 'array-I': array.array('I').itemsize, 'array-d': 8}[kind]
    raw = filler(seed, items * isz, 3)
    if kind == 'bytes':
        return raw, raw
    if kind == 'bytearray':
        return bytearray(raw), raw
    if kind == 'memoryview':
        return memoryview(raw), raw
    if kind == 'memoryview-H':
        return memoryview(raw).cast('H'), raw
    if kind == 'memoryview-Q':
        return memoryview(raw).cast('Q'), raw
    a = array.array(kind[-1])
    a.frombytes(raw)
    return a, raw


def _content_case(vals, acc):
    from oslo_utils import fileutils
    kind, items, seed = vals
    obj, raw = make_content(kind, items, seed)
    acc.nontrivial(repr((kind, items)))
    # a directory of this case's own, missing at the first call and present at the second
    # (so that a replay in a fresh process sees exactly the same two situations)
    d = os.path.join(tmpdir(), 'content-%s-%s' % (kind, items))
    shutil.rmtree(d, ignore_errors=True)
    try:
        for situation in ('directory-missing', 'directory-present'):
            try:
                p = fileutils.write_to_tempfile(obj, path=d)
            except Exception as e:
                acc.fail('write_to_tempfile-content:%s' % kind,
                         {'content_kind': kind, 'items': items, 'situation': situation,
                          'got': 'raises ' + type(e).__name__},
                         {'content': [kind, items, seed]})
                return
            try:
                with open(p, 'rb') as f:
                    got = f.read()
            finally:
                os.unlink(p)
            if got != raw:
                acc.fail('write_to_tempfile-content:%s' % kind,
                         {'content_kind': kind, 'items': items, 'situation': situation,
                          'bytes_expected': len(raw), 'bytes_in_file': len(got)},
                         {'content': [kind, items, seed]})
                return
    finally:
        shutil.rmtree(d, ignore_errors=True)


PATH_PARTS = ['new', 'dir', 'link', 'dangling', 'file', '..', '.', 'new2']


def _make_layout(base):
    """dir/ (existing, with dir/sub/), elsewhere/target/, link -> elsewhere/target,
    dangling -> nowhere, file (regular)."""
    os.makedirs(os.path.join(base, 'dir', 'sub'))
    os.makedirs(os.path.join(base, 'elsewhere', 'target', 'dir'))
    os.symlink(os.path.join(base, 'elsewhere', 'target'), os.path.join(base, 'link'))
    os.symlink(os.path.join(base, 'nowhere'), os.path.join(base, 'dangling'))
    open(os.path.join(base, 'file'), 'w').close()


def _snapshot(base):
    out = []
    for root, dirs, files in os.walk(base):
        rel = os.path.relpath(root, base)
        for n in sorted(dirs + files):
            full = os.path.join(root, n)
            out.append((os.path.normpath(os.path.join(rel, n)),
                        'link' if os.path.islink(full) else 'dir' if os.path.isdir(full) else 'file'))
    return sorted(out)


def _tree_case(vals, acc):
    """ensure_tree(path) against os.makedirs semantics ("mkdir -p") in a twin directory:
    same outcome, same resulting tree, same answer to "is the given path a directory now"
    (os.makedirs itself reports success for 'dangling-link/.' without creating anything, so
    "is a directory afterwards" is not demanded outright)."""
    from oslo_utils import fileutils
    parts, trailing = vals
    if parts[0] == '..':
        return
    top = tempfile.mkdtemp(prefix='verif-c20p-', dir=tmpdir())
    try:
        res = []
        for twin in ('impl', 'ref'):
            base = os.path.join(top, twin)
            os.mkdir(base)
            _make_layout(base)
            path = os.path.join(base, *parts) + ('/' if trailing else '')
            try:
                if twin == 'impl':
                    fileutils.ensure_tree(path)
                else:
                    try:
                        os.makedirs(path, 0o777)
                    except FileExistsError:
                        if not os.path.isdir(path):
                            raise
                out = 'ok'
            except OSError as e:
                out = 'OSError:%s' % errno.errorcode.get(e.errno, e.errno)
            except Exception as e:
                out = 'raises ' + type(e).__name__
            res.append((out, os.path.isdir(path), _snapshot(base)))
        acc.nontrivial(repr(vals))
        (o1, d1, s1), (o2, d2, s2) = res
        if o1 != o2 or s1 != s2 or d1 != d2:
            acc.fail('ensure_tree-path-shape', {'path': '/'.join(parts) + ('/' if trailing else ''),
                                                'ensure_tree': o1, 'makedirs': o2,
                                                'is_dir_afterwards': d1,
                                                'tree_differs': [x for x in s1 if x not in s2][:4] +
                                                [x for x in s2 if x not in s1][:4]},
                     {'tree': [list(parts), trailing]})
    finally:
        shutil.rmtree(top, ignore_errors=True)


def _rewrite_case(vals, acc):
    """The digest is that of the content *now*: the file is rewritten in place between two
    calls (same path, same inode, same length; the modification time put back as copy -p /
    rsync -t / a tar restore do)."""
    from oslo_utils import fileutils
    size, alg, restore, seed = vals
    path = os.path.join(tmpdir(), 'rewrite-%d-%s-%d' % (size, alg, restore))
    a, b = filler(seed, size, 1), filler(seed + 1, size, 2)
    acc.nontrivial(repr(vals))
    try:
        with open(path, 'wb') as f:
            f.write(a)
        st = os.stat(path)
        first = fileutils.compute_file_checksum(path, algorithm=alg)
        with open(path, 'r+b') as f:
            f.write(b)
        if restore:
            os.utime(path, ns=(st.st_atime_ns, st.st_mtime_ns))
        second = fileutils.compute_file_checksum(path, algorithm=alg)
        lb = fileutils.last_bytes(path, 4)
        if first != hashlib.new(alg, a).hexdigest() or second != hashlib.new(alg, b).hexdigest() or \
                lb != (b[max(0, size - 4):], max(0, size - 4)):
            acc.fail('checksum-after-rewrite-in-place',
                     {'size': size, 'algorithm': alg, 'mtime_restored': bool(restore),
                      'first_ok': first == hashlib.new(alg, a).hexdigest(),
                      'second': second, 'want': hashlib.new(alg, b).hexdigest()},
                     {'rewrite': [size, alg, restore, seed]})
    finally:
        try:
            os.unlink(path)
        except OSError:
            pass


def check_tempfile(rep):
    from oslo_utils import fileutils
    base = tempfile.mkdtemp(prefix='verif-c20t-')
    try:
        for depth in (0, 1, 2, 3):
            d = os.path.join(base, *['lvl%d_%d' % (depth, i) for i in range(depth)]) if depth else base
            before = set(os.listdir(d)) if os.path.isdir(d) else set()
            made = []
            for i in range(5):
                content = filler(depth, 10 + i, i)
                kw = {}
                if i % 2:
                    kw = {'suffix': '.conf', 'prefix': 'nova-'}
                rep.count('evaluations')
                rep.nontrivial('tmp/%d/%d' % (depth, i))
                try:
                    p = fileutils.write_to_tempfile(content, path=d, **kw)
                except Exception as e:
                    rep.fail('write_to_tempfile-raises', {'depth': depth, 'exception': type(e).__name__},
                             {'tempfile': depth})
                    return
                ok = (os.path.isfile(p) and os.path.dirname(p) == d and p not in made and
                      os.path.basename(p) not in before and open(p, 'rb').read() == content)
                if kw:
                    ok = ok and os.path.basename(p).startswith('nova-') and p.endswith('.conf')
                if not ok:
                    rep.fail('write_to_tempfile', {'depth': depth, 'path': p, 'made_before': made},
                             {'tempfile': depth})
                    return
                made.append(p)
            if depth:
                # the directory disappears between two calls: it is created again
                shutil.rmtree(os.path.join(base, 'lvl%d_0' % depth))
                rep.count('evaluations')
                rep.nontrivial('tmp-again/%d' % depth)
                try:
                    p = fileutils.write_to_tempfile(b'again', path=d)
                    ok = os.path.isfile(p) and open(p, 'rb').read() == b'again'
                except Exception as e:
                    ok, p = False, 'raises ' + type(e).__name__
                if not ok:
                    rep.fail('write_to_tempfile-after-directory-removed',
                             {'depth': depth, 'got': p}, {'tempfile': depth})
                    return
        # bytes-like content of other kinds, and a process whose stdin is not UTF-8
        import sys

        class FakeStdin:
            encoding = 'latin-1'
        payload = b'caf\xe9 \xff\x00 end'
        for kind, content in (('bytearray', bytearray(payload)), ('memoryview', memoryview(payload)),
                              ('bytes-latin1-stdin', payload)):
            rep.count('evaluations')
            rep.nontrivial('content/' + kind)
            old_stdin = sys.stdin
            if kind.endswith('stdin'):
                sys.stdin = FakeStdin()
            try:
                p = fileutils.write_to_tempfile(content, path=base)
                ok = open(p, 'rb').read() == payload
            except Exception as e:
                ok, p = False, 'raises ' + type(e).__name__
            finally:
                sys.stdin = old_stdin
            if not ok:
                rep.fail('write_to_tempfile-content:%s' % kind, {'content_kind': kind, 'got': p},
                         {'tempfile': 0})
                return
        # without a directory: default location, still a new file with the content
        p = fileutils.write_to_tempfile(b'xyz')
        rep.count('evaluations')
        try:
            if open(p, 'rb').read() != b'xyz':
                rep.fail('write_to_tempfile-default-dir', {'path': p}, {'tempfile': -1})
        finally:
            os.unlink(p)
    finally:
        shutil.rmtree(base, ignore_errors=True)


def check_errno(rep):
    """Every errno into os.makedirs and into the remove callable."""
    from oslo_utils import fileutils
    base = tempfile.mkdtemp(prefix='verif-c20e-')
    try:
        adir = os.path.join(base, 'adir')
        os.mkdir(adir)
        afile = os.path.join(base, 'afile')
        open(afile, 'w').close()
        absent = os.path.join(base, 'absent')
        dangling = os.path.join(base, 'dangling')
        os.symlink(os.path.join(base, 'nowhere'), dangling)
        for code in sorted(errno.errorcode):
            for state, path in (('absent', absent), ('dir', adir), ('file', afile),
                                ('dangling-symlink', dangling)):
                exc = OSError(code, os.strerror(code), path)
                rep.count('evaluations')
                rep.count('errno_injections')
                rep.nontrivial('mk/%d/%s' % (code, state))
                with mock.patch('os.makedirs', side_effect=exc):
                    try:
                        fileutils.ensure_tree(path)
                        got = None
                    except BaseException as e:
                        got = e
                swallow = code == errno.EEXIST and state == 'dir'
                if swallow and got is not None:
                    rep.fail('ensure_tree-EEXIST-on-dir-raised', {'errno': errno.errorcode[code],
                                                                 'state': state, 'got': repr(got)},
                             {'errno': [code, state, 'makedirs']})
                elif not swallow and got is not exc:
                    rep.fail('ensure_tree-error-swallowed-or-replaced',
                             {'errno': errno.errorcode[code], 'state': state, 'got': repr(got)},
                             {'errno': [code, state, 'makedirs']})
            exc = OSError(code, os.strerror(code), afile)
            calls = []

            def rm(p, _e=exc, _c=calls):
                _c.append(p)
                raise _e
            rep.count('evaluations')
            rep.count('errno_injections')
            rep.nontrivial('rm/%d' % code)
            try:
                fileutils.delete_if_exists(afile, remove=rm)
                got = None
            except BaseException as e:
                got = e
            swallow = code == errno.ENOENT
            if calls != [afile] or (swallow and got is not None) or (not swallow and got is not exc):
                rep.fail('delete_if_exists-errno', {'errno': errno.errorcode[code], 'got': repr(got),
                                                    'calls': calls},
                         {'errno': [code, 'file', 'remove']})
        # the filter is on errno, whatever OSError subclass carries it
        class RemoteFSError(OSError):
            pass
        for maker in (lambda c: RemoteFSError(c, 'remote'), ):
            for code, want_swallow in ((errno.ENOENT, True), (errno.EACCES, False), (errno.EEXIST, False)):
                exc = maker(code)
                late = OSError('late errno')
                late.errno = code

                for e in (exc, late):
                    def rm(p, _e=e):
                        raise _e
                    rep.count('evaluations')
                    rep.nontrivial('rmsub/%d/%s' % (code, type(e).__name__))
                    try:
                        fileutils.delete_if_exists(afile, remove=rm)
                        got = None
                    except BaseException as g:
                        got = g
                    if (want_swallow and got is not None) or (not want_swallow and got is not e):
                        rep.fail('delete_if_exists-errno-on-subclass',
                                 {'errno': errno.errorcode[code], 'exception_class': type(e).__name__,
                                  'got': repr(got)}, {'errno': [code, 'file', 'remove-subclass']})
            e = RemoteFSError(errno.EEXIST, 'exists')
            rep.count('evaluations')
            with mock.patch('os.makedirs', side_effect=e):
                try:
                    fileutils.ensure_tree(adir)
                    got = None
                except BaseException as g:
                    got = g
            if got is not None:
                rep.fail('ensure_tree-EEXIST-subclass-on-dir', {'got': repr(got)},
                         {'errno': [errno.EEXIST, 'dir', 'makedirs-subclass']})
        # the requested mode is applied to what is created
        old_umask = os.umask(0o022)
        try:
            for mode in (0o700, 0o750, 0o755):
                d = os.path.join(base, 'mode-%o' % mode, 'leaf')
                rep.count('evaluations')
                rep.nontrivial('mode%o' % mode)
                fileutils.ensure_tree(d, mode)
                got = os.stat(d).st_mode & 0o777
                if got != mode & ~0o022:
                    rep.fail('ensure_tree-mode', {'requested': oct(mode), 'got': oct(got)},
                             {'errno': [0, 'mode', 'makedirs']})
            d = os.path.join(base, 'mode-default')
            fileutils.ensure_tree(d)
            rep.count('evaluations')
            if os.stat(d).st_mode & 0o777 != 0o777 & ~0o022:
                rep.fail('ensure_tree-default-mode', {'got': oct(os.stat(d).st_mode & 0o777)},
                         {'errno': [0, 'mode', 'makedirs']})
        finally:
            os.umask(old_umask)
        # the real thing: idempotence
        rep.count('evaluations')
        nested = os.path.join(base, 'n1', 'n2', 'n3')
        try:
            fileutils.ensure_tree(nested)
            fileutils.ensure_tree(nested)
            fileutils.ensure_tree(adir)
            ok = os.path.isdir(nested)
        except Exception as e:
            ok = False
        if not ok:
            rep.fail('ensure_tree-real', {'path': nested}, {'errno': [0, 'real', 'makedirs']})
        for p in (afile, dangling):
            rep.count('evaluations')
            try:
                fileutils.delete_if_exists(p)
                fileutils.delete_if_exists(p)
                ok = not os.path.lexists(p)
            except Exception:
                ok = False
            if not ok:
                rep.fail('delete_if_exists-real', {'path': p}, {'errno': [0, 'real', 'remove']})
        rep.count('evaluations')
        try:
            fileutils.ensure_tree(os.path.join(base, 'n1', 'file-in-the-way'))
            open(os.path.join(base, 'n1', 'plain'), 'w').close()
            try:
                fileutils.ensure_tree(os.path.join(base, 'n1', 'plain'))
                rep.fail('ensure_tree-over-a-file-succeeded', {}, {'errno': [0, 'real-file', 'makedirs']})
            except OSError:
                pass
        except Exception as e:
            rep.fail('ensure_tree-real2', {'exception': type(e).__name__}, {'errno': [0, 'real', 'makedirs']})
    finally:
        shutil.rmtree(base, ignore_errors=True)


def run(ctx):
    rep = ctx.new_report()
    try:
        E.run(rep, 'checksum+last_bytes', [[1, 2, 7, 64, 4096, 65536, 'size+1', 'big'], list(range(9)),
                                           [ctx.seed, ctx.seed + 1] if ctx.thorough else [ctx.seed]],
              _sum_case)
        E.run(rep, 'sparse-files', [[4096, 12288, 65537, 196608, (1 << 20) + 5],
                                    ['hole-at-end', 'hole-in-middle', 'hole-at-start', 'all-hole', 'two-holes'],
                                    [4096, 65536, 1000], [ctx.seed]], _sparse_case)
        E.run(rep, 'rewritten-in-place', [[1, 7, 4096, 65537], ['sha256', 'md5'], [0, 1], [ctx.seed]],
              _rewrite_case)
        from vlib import lits
        counts = {0, 1, 7, 65535, 65536, 65537, 131073}
        for v in lits.new('oslo_utils/fileutils.py')['ints']:
            if 2 <= v <= 1 << 21:
                counts |= {v - 1, v, v + 1, 2 * v + 1}
        E.run(rep, 'tempfile-content', [CONTENT_KINDS, sorted(counts), [ctx.seed]], _content_case)
        import itertools
        shapes = [t for n in (1, 2, 3, 4) for t in itertools.product(PATH_PARTS, repeat=n)
                  if n < 4 or ('..' in t and t.count('new') + t.count('new2') >= 1)]
        E.run(rep, 'ensure_tree-paths', [shapes, [False, True]], _tree_case)
        rep.count('evaluations', rep.counters.get('checksum_calls', 0) +
                  rep.counters.get('last_bytes_calls', 0))
        check_tempfile(rep)
        check_errno(rep)
    finally:
        for d in os.listdir(tempfile.gettempdir()):
            if d.startswith('verif-c20-'):
                shutil.rmtree(os.path.join(tempfile.gettempdir(), d), ignore_errors=True)
    rep.sample({'compute_file_checksum': {'size': 8193, 'read_chunksize': 4096, 'algorithm': 'md5'}})
    rep.sample({'last_bytes': {'size': 13, 'num': 1 << 62}, 'want': 'whole file, 0 unread'})
    rep.sample({'ensure_tree': {'injected': 'EEXIST', 'path_state': 'file'}, 'want': 'same OSError object propagates'})
    rep.notes['rule'] = ('sizes x chunk sizes (each with every algorithm and every n) + tempfile '
                         'levels + every errno x call site x path state; all distinct by construction')
    rep.notes['bounds'] = {'chunk_sizes': [1, 2, 7, 64, 4096, 65536, 'size+1'],
                           'algorithms': algorithms(), 'errnos': len(errno.errorcode)}
    return rep


def replay(payload):
    from vlib.report import Report
    rep = Report('C20', {})
    if 'sum' in payload or 'last' in payload:
        size = (payload.get('sum') or payload.get('last'))[0]
        seed = (payload.get('sum') or payload.get('last'))[-1]
        from oslo_utils import fileutils
        content = filler(seed, size, size % 251)
        d = tempfile.mkdtemp(prefix='verif-c20r-')
        try:
            p = os.path.join(d, 'f')
            with open(p, 'wb') as f:
                f.write(content)
            if 'sum' in payload:
                _, chunk, alg, _ = payload['sum']
                got = fileutils.compute_file_checksum(p, read_chunksize=chunk, algorithm=alg)
                return {'violates': got != hashlib.new(alg, content).hexdigest(), 'got': got}
            _, n, _ = payload['last']
            take = min(n, size)
            try:
                got = fileutils.last_bytes(p, n)
            except BaseException as e:
                got = 'raises ' + type(e).__name__
            return {'violates': got != (content[size - take:], size - take), 'got': repr(got)[:100]}
        finally:
            shutil.rmtree(d, ignore_errors=True)
    if 'sparse' in payload or 'content' in payload or 'tree' in payload or 'rewrite' in payload:
        acc = _Acc()
        try:
            if 'rewrite' in payload:
                _rewrite_case(tuple(payload['rewrite']), acc)
            elif 'sparse' in payload:
                _sparse_case(tuple(payload['sparse']), acc)
            elif 'content' in payload:
                _content_case(tuple(payload['content']), acc)
            else:
                _tree_case((tuple(payload['tree'][0]), payload['tree'][1]), acc)
        finally:
            shutil.rmtree(tmpdir(), ignore_errors=True)
        return {'violates': bool(acc.fails), 'problems': acc.fails}
    if 'tempfile' in payload:
        check_tempfile(rep)
    else:
        check_errno(rep)
    return {'violates': bool(rep.violations), 'classes': sorted(rep.violations)}


class _Acc:
    def __init__(self):
        import collections
        self.fails = []
        self.counters = collections.Counter()

    def fail(self, cls, summary, payload, sigs=()):
        self.fails.append({'class': cls, 'summary': summary})

    def count(self, *a):
        pass

    def nontrivial(self, *a):
        pass
