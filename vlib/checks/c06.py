"""C06 - InspectWrapper is a transparent pipe that isolates inspector faults.

Exhaustive fault enumeration on the real InspectWrapper: for every source
stream x read sequence (all subsets of a cut set) x source kind (file-like
read(), iterator) x expected_format x iteration order of the inspector set,
every single injected fault (inspector x call index x exception class) and a
family of fault pairs is executed to completion. Each execution is compared
with a reference model of the wrapper loop written from the statement and
driven by stand-alone real inspectors fed the same chunks.

Oracle: (1) bytes handed to the reader == bytes taken from the source, in
order; (2) an exception reaches the reader iff the expected format's inspector
failed (then it is the same object, at that chunk) or became complete without
matching (then ImageFormatError, at the chunk the stand-alone inspector
predicts); (3) a failed inspector is never fed again; (4) isolation: without an
abort every non-faulted inspector ends in exactly the state it reaches in the
fault-free run; (5) after an abort the source position is the end of the
aborting chunk; close() finishes every inspector.
"""
import hashlib
import itertools
import logging
import struct
import time

from vlib import par
from vlib.img import build as B

PROPERTY = 'C06'
LEVEL = 'model_checking'
ENGINE = 'A'
TECHNIQUE = ('exhaustive enumeration of read sequences x single/pair fault '
             'placements x expected_format x iteration order on the real '
             'InspectWrapper, each execution compared with a reference model '
             'of the wrapper loop driven by stand-alone inspectors')
LEVEL_TEXT = ('Every read sequence over the cut set, through three source protocols (exact- '
'size reads, an iterator, fixed-size reads answered short or empty), with every '
'single injected fault (any inspector, any call index, four exception classes) '
'and a family of fault pairs, under every expected_format and both iteration '
'orders of the inspector set, and every single fault again with DEBUG logging '
'enabled, is executed on the real wrapper; delivered bytes, the propagated '
'exception (identity and chunk), calls reaching each inspector, final inspector '
'states and the source position are compared with the reference prediction.')
LEVEL_NOTE = ('Faults are Exception subclasses raised from eat_chunk (the wrapper catches '
'Exception); BaseException subclasses are out of scope. Sources are eight '
'representative streams; read sequences are subsets of 5-6 positions per '
'stream.')

ALL = ['raw', 'qcow2', 'vhd', 'vhdx', 'vmdk', 'vdi', 'qed', 'iso', 'gpt', 'luks']


class Injected(Exception):
    pass


EXC = {'ImageFormatError': None, 'RuntimeError': RuntimeError,
       'struct.error': struct.error, 'MemoryError': MemoryError}

_SOURCES = []


def sources(ctx):
    big = bytearray(270 * 1024)
    big[0:8] = b'vhdxfile'
    vm = B.vmdk(desc_num=1, grain_fill=600).data
    s = [
        ('zeros40k', bytes(40 * 1024), [64, 512, 4096, 34816, 36000]),
        ('qcow2', B.qcow2(length=4096).data, [4, 64, 512, 592, 1024]),
        ('vmdk', vm, [4, 64, 512, 1024, len(vm) - 7]),
        ('text', B.raw('text', 3000).data, [4, 64, 512, 592, 2000]),
        ('kdmv-bad-version', b'KDMV' + struct.pack('<I', 9) + bytes(2040), [4, 63, 64, 512, 600]),
        ('vhdxfile-bad-table', bytes(big), [64, 4096, 196608, 262144, 266240]),
    ]
    # a stream every inspector digests without complaint although one structure is odd (the VHDX
    # size item declared 16 bytes long); a KDMV header announcing a footer on a stream too short
    # to hold one (something is left to do at the end of the stream)
    vx = B.vhdx(item_length=16, tail=2048)
    s.append(('vhdx-item16', vx.data, [8, 196608, 262144, vx.size_end - 8, vx.size_end + 8]))
    kd = B.vmdk_header(2048, 1, 1, 1, B.GD_AT_END) + B.vmdk_descriptor()
    kd = kd + bytes(1024 - len(kd)) if len(kd) < 1024 else kd[:1400]
    s.append(('kdmv-gdatend-short', kd, [4, 64, 512, 600, 1000]))
    if ctx.thorough:
        s.append(('luks', B.luks(length=2048, payload_sectors=1).data, [6, 108, 592, 593, 1000]))
        s.append(('iso+qcow2', B.iso().data[:0] + bytes(B.qcow2(length=512).data) + B.iso().data[512:],
                  [512, 32768, 34816, 34817, 36000]))
    return s


# ---------------------------------------------------------------------------
# sources for the wrapper

class FileSrc:
    def __init__(self, data, plan=None):
        self.data, self.pos, self.reads = data, 0, []
        self.plan = plan            # lengths the source is willing to hand out, call by call

    def read(self, n):
        if self.plan is not None:
            i = len(self.reads)
            n = min(n, self.plan[i]) if i < len(self.plan) else 0
        c = self.data[self.pos:self.pos + n]
        self.reads.append((self.pos, n))
        self.pos += len(c)
        return c


class ClosableFileSrc(FileSrc):
    """What a real file object has on top of read(): close()."""
    closed = False

    def close(self):
        self.closed = True


class _FmtHandler(logging.Handler):
    """A handler that does what real ones do: format the record."""
    def emit(self, record):
        record.getMessage()


def set_debug_logging(on):
    lg = logging.getLogger('oslo_utils.imageutils.format_inspector')
    if on:
        lg.disabled = False
        lg.setLevel(logging.DEBUG)
        if not any(isinstance(h, _FmtHandler) for h in lg.handlers):
            lg.addHandler(_FmtHandler())
    else:
        lg.disabled = True
        lg.setLevel(logging.NOTSET)


class IterSrc:
    def __init__(self, chunks):
        self.chunks, self.i, self.pos = chunks, 0, 0

    def __iter__(self):
        return self

    def __next__(self):
        if self.i >= len(self.chunks):
            raise StopIteration
        c = self.chunks[self.i]
        self.i += 1
        self.pos += len(c)
        return c


class ClosableIterSrc(IterSrc):
    """A generator-like source: iteration plus close()."""
    closed = False

    def close(self):
        self.closed = True


def plan_chunks(data, cuts, empty_at=None):
    pts = [0] + sorted(cuts) + [len(data)]
    chunks = [data[a:b] for a, b in zip(pts, pts[1:]) if b > a]
    if empty_at is not None:
        i = min(empty_at, len(chunks))
        chunks = chunks[:i] + [b''] + chunks[i:]
    return chunks


# ---------------------------------------------------------------------------
# stand-alone behaviour of every inspector on a chunk sequence (reference input)

def standalone(chunks):
    """-> {name: dict(err=(k, clsname)|None, mis=k|None, canon=[state after k calls])}
    k is the 1-based index of the call."""
    from oslo_utils.imageutils import format_inspector as fi
    from vlib.mc import stream as S
    out = {}
    for name in ALL:
        insp = fi.ALL_FORMATS[name]()
        err = mis = None
        canon = [S.canon_inspector(insp)]
        for k, c in enumerate(chunks, 1):
            try:
                insp.eat_chunk(c)
            except Exception as e:
                err = (k, type(e).__name__)
                canon.append(S.canon_inspector(insp))
                break
            canon.append(S.canon_inspector(insp))
            if mis is None and insp.complete and not insp.format_match:
                mis = k
        out[name] = {'err': err, 'mis': mis, 'canon': canon}
    return out


def predict(chunks, sa, expected, faults, allowed):
    """Reference model of the wrapper loop. faults: {name: (j, exc)}.
    -> dict(abort=None|(k, what), fail_at={name: k})"""
    names = [n for n in ALL if not allowed or n in allowed]
    fail_at = {}
    for n in names:
        ks = []
        if sa[n]['err']:
            ks.append(sa[n]['err'][0])
        if n in faults:
            ks.append(faults[n][0])
        if ks:
            fail_at[n] = min(ks)
    abort = None
    if expected in names:
        e_fail = fail_at.get(expected)
        mis = sa[expected]['mis']
        if e_fail is not None and e_fail <= len(chunks) and (mis is None or e_fail <= mis):
            inj = expected in faults and faults[expected][0] == e_fail
            abort = (e_fail, 'injected' if inj else sa[expected]['err'][1])
        elif mis is not None and (e_fail is None or mis < e_fail):
            abort = (mis, 'ImageFormatError')
    return {'abort': abort, 'fail_at': fail_at, 'names': names}


def execute(data, chunks, kind, expected, allowed, reverse, faults):
    """One execution on the real wrapper. faults: {name: (j, exception instance)}"""
    from oslo_utils.imageutils import format_inspector as fi
    from vlib.mc import stream as S
    # file-like readers ask for the planned sizes and then once more at EOF
    debug = kind.endswith('+debug')
    kind = kind.split('+')[0]
    if kind == 'file':
        # a real file: it has close(); the short-reading source below has none, iterator
        # sources have one in every other configuration - InspectWrapper.close() must finish
        # the inspectors either way (and close a source that can be closed)
        src = ClosableFileSrc(data)
        feed = chunks + [b'']
    elif kind == 'file-short':
        # the reader always asks for 1 MiB; the source answers with the planned piece
        # (a short read - which is not the end of the stream - or nothing at all)
        src = FileSrc(data, plan=[len(c) for c in chunks] + [0])
        feed = chunks + [b'']
    else:
        src = (ClosableIterSrc if reverse else IterSrc)(list(chunks))
        feed = chunks
    w = fi.InspectWrapper(src, expected_format=expected, allowed_formats=allowed)
    ds = S.install_detset(w, reverse)
    insps = {i.NAME: i for i in (set.__iter__(ds) if ds is not None else S.inspectors_of(w))}
    calls = {n: 0 for n in insps}
    fed_after_fail = []
    failed = set()

    def wrap(name, insp):
        orig = insp.eat_chunk

        def eat(chunk):
            calls[name] += 1
            if name in failed:
                fed_after_fail.append((name, calls[name]))
            f = faults.get(name)
            if f is not None and calls[name] == f[0]:
                failed.add(name)
                raise f[1]
            try:
                return orig(chunk)
            except Exception:
                failed.add(name)
                raise
        insp.eat_chunk = eat
    for n, i in insps.items():
        wrap(n, i)
    delivered = []
    raised = None
    k = 0
    if debug:
        set_debug_logging(True)
    try:
        if kind == 'file-short':
            for n, c in enumerate(feed):
                k += 1
                delivered.append(w.read(1 << 20))
        elif kind == 'file':
            for n, c in enumerate(feed):
                k += 1
                last = n == len(feed) - 1
                got = w.read(len(c) if c else (4096 if last else 0))
                delivered.append(got)
        else:
            it = iter(w)
            while True:
                k += 1
                try:
                    delivered.append(next(it))
                except StopIteration:
                    k -= 1
                    break
    except Exception as e:
        raised = (k, e)
    finally:
        if debug:
            set_debug_logging(False)
    finished_by_iter = getattr(w, '_finished', None)
    closed_ok = None
    if raised is None:
        try:
            w.close()
            fin = [getattr(i, '_finished', None) for i in insps.values()]
            # (an implementation that keeps the flag elsewhere cannot be asked this way)
            closed_ok = True if any(f is None for f in fin) else all(fin)
            if closed_ok is True and getattr(src, 'closed', None) is False:
                closed_ok = 'source-left-open'
        except Exception as e:
            closed_ok = ('close-raised', type(e).__name__)
    return {'delivered': delivered, 'raised': raised, 'calls': calls,
            'fed_after_fail': fed_after_fail, 'pos': src.pos, 'insps': insps,
            'closed_ok': closed_ok, 'wrapper': w, 'feed': feed,
            'finished_by_iter': finished_by_iter}


def compare(data, chunks, kind, expected, allowed, faults, sa, obs, base_canon):
    """-> list of (clause, detail)"""
    from vlib.mc import stream as S
    bad = []
    feed = obs['feed']
    pred = predict(feed, sa, expected, {n: (j, e) for n, (j, e) in faults.items()}, allowed)
    abort = pred['abort']
    # (1) transparency
    nd = len(obs['delivered'])
    if obs['delivered'] != feed[:nd]:
        bad.append(('1-bytes-altered', {'at_chunk': nd}))
    # (2) exception reaching the reader
    if abort is None:
        if obs['raised'] is not None:
            bad.append(('2-unexpected-exception', {'chunk': obs['raised'][0],
                                                   'type': type(obs['raised'][1]).__name__}))
        elif b''.join(obs['delivered']) != data:
            bad.append(('1-stream-incomplete', {'delivered': len(b''.join(obs['delivered'])),
                                                'source': len(data)}))
    else:
        k, what = abort
        if obs['raised'] is None:
            bad.append(('2-abort-missing', {'expected_abort': abort}))
        else:
            ok, exc = obs['raised']
            if ok != k:
                bad.append(('2-abort-at-wrong-chunk', {'got': ok, 'want': k,
                                                       'type': type(exc).__name__}))
            if what == 'injected':
                if exc is not faults[expected][1]:
                    bad.append(('2-not-the-same-exception-object',
                                {'type': type(exc).__name__}))
            elif type(exc).__name__ != what:
                bad.append(('2-wrong-exception-type', {'got': type(exc).__name__,
                                                       'want': what}))
            # (5) nothing consumed beyond the aborting chunk
            want_pos = sum(len(c) for c in feed[:k])
            if obs['pos'] != want_pos:
                bad.append(('5-source-position-after-abort', {'got': obs['pos'],
                                                              'want': want_pos}))
    # (3) never fed again
    if obs['fed_after_fail']:
        bad.append(('3-fed-after-failure', obs['fed_after_fail'][:3]))
    limit = len(feed) if abort is None else abort[0]
    for n in pred['names']:
        fa = pred['fail_at'].get(n)
        cap = min(limit, fa) if fa is not None else limit
        c = obs['calls'].get(n, 0)
        if c > cap:
            bad.append(('3-too-many-calls', {'inspector': n, 'calls': c, 'cap': cap}))
        if abort is None and c != cap:
            bad.append(('4-inspector-skipped', {'inspector': n, 'calls': c, 'want': cap}))
    for n in obs['calls']:
        if n not in pred['names']:
            bad.append(('allowed-formats-ignored', n))
    # (4) isolation: end states equal to the stand-alone / fault-free ones
    if abort is None and obs['closed_ok'] is True:
        for n in pred['names']:
            if n in faults and pred['fail_at'].get(n) == faults[n][0] and (
                    sa[n]['err'] is None or faults[n][0] <= sa[n]['err'][0]):
                continue        # the injected fault froze this one
            got = S.observable_inspector(obs["insps"][n])
            if got != base_canon[n]:
                bad.append(('4-state-differs-from-fault-free-run', {'inspector': n}))
    if abort is None and obs['closed_ok'] is not True:
        bad.append(('close-did-not-finish', obs['closed_ok']))
    return bad, pred


def _fault_free_canon(data, chunks, kind, allowed):
    """States the inspectors reach in the fault-free run of the real wrapper
    (finished), keyed by name."""
    from vlib.mc import stream as S
    obs = execute(data, chunks, kind, None, allowed, False, {})
    return {n: S.observable_inspector(i) for n, i in obs['insps'].items()}, obs


def _job(job):
    si, plan_lo, plan_hi, thorough, seed = job
    from vlib.mc import stream as S
    name, data, cutset = _SOURCES[si]
    out = {'executions': 0, 'transitions': 0, 'comparisons': 0, 'aborts': 0,
           'faults_fired': 0, 'problems': [], 'state_hashes': set(), 'outcomes': set(),
           'ms': 0}
    t0 = time.time()
    subsets = []
    for r in range(len(cutset) + 1):
        subsets += list(itertools.combinations(cutset, r))
    expecteds = [None] + ALL + ['bogus']
    for pi in range(plan_lo, min(plan_hi, len(subsets))):
        cuts = subsets[pi]
        base_chunks = plan_chunks(data, cuts)
        variants = [(None, 'file'), (None, 'iter')]
        # an empty chunk in the middle of the stream (a source that momentarily
        # has nothing / a zero-size read): light fault menu
        for e in range(len(base_chunks) + 1):
            variants.append((e, 'iter'))
            variants.append((e, 'file'))
            variants.append((e, 'file-short'))
        variants.append((None, 'file-short'))
        # DEBUG logging switched on for the inspector module (a configuration the
        # statement does not mention): every single fault, no expected format
        variants.append((None, 'file+debug'))
        variants.append((None, 'iter+debug'))
        for empty_at, kind in variants:
            chunks = plan_chunks(data, cuts, empty_at)
            light = empty_at is not None or kind == 'file-short'
            dbg = kind.endswith('+debug')
            feed = chunks + [b''] if kind.startswith('file') else chunks
            sa = standalone(feed)
            base_canon, base_obs = _fault_free_canon(data, chunks, kind, None)
            ncalls = len(feed)
            fault_list = [None]
            for n in (ALL if not light else ['qcow2', 'vmdk', 'raw']):
                for j in range(1, ncalls + 1):
                    for cname in (list(EXC) if j == 1 or thorough else ['RuntimeError']):
                        fault_list.append(((n, j, cname),))
            # pairs of faults in different inspectors (same or adjacent calls)
            if (pi % 8 == 0 or thorough) and not light and not dbg:
                for a, b in itertools.combinations(ALL, 2):
                    for ja, jb in ((1, 1), (1, 2), (2, 1), (2, 2)):
                        if ja <= ncalls and jb <= ncalls:
                            fault_list.append(((a, ja, 'RuntimeError'), (b, jb, 'struct.error')))
            for expected in ([None] if dbg else expecteds if not light else [None, 'qcow2', 'vmdk', 'raw']):
                for reverse in ((False, True) if not light and not dbg else (False,)):
                    for fl in fault_list:
                        if reverse and expected not in ALL and not thorough:
                            continue       # order is unobservable without an expected inspector
                        if reverse and fl is not None and len(fl) == 1 and not thorough \
                                and fl[0][0] != expected and fl[0][1] > 2:
                            continue
                        faults = {}
                        for (n, j, cname) in (fl or ()):
                            cls = EXC[cname]
                            if cls is None:
                                from oslo_utils.imageutils import format_inspector as fi
                                cls = fi.ImageFormatError
                            faults[n] = (j, cls('injected'))
                        obs = execute(data, chunks, kind, expected, None, reverse, faults)
                        bad, pred = compare(data, chunks, kind, expected, None, faults, sa,
                                            obs, base_canon)
                        out['executions'] += 1
                        out['transitions'] += len(obs['delivered']) + (1 if obs['raised'] else 0)
                        out['comparisons'] += 1
                        if pred['abort']:
                            out['aborts'] += 1
                        if fl:
                            out['faults_fired'] += sum(
                                1 for n, (j, e) in faults.items()
                                if obs['calls'].get(n, 0) >= j)
                        out['outcomes'].add((pred['abort'][1] if pred['abort'] else 'complete',
                                             len(pred['fail_at'])))
                        out['state_hashes'].add(hash(S.canon_wrapper(obs['wrapper'])))
                        if bad and len(out['problems']) < 10:
                            out['problems'].append({
                                'source': name, 'cuts': list(cuts), 'kind': kind,
                                'empty_at': empty_at,
                                'expected': expected, 'reverse': reverse,
                                'faults': [list(f) for f in (fl or ())],
                                'clauses': [(c, d) for c, d in bad[:4]]})
            # allowed_formats: inspectors outside it are never constructed / fed
            if pi % 4 == 0 and not light and not dbg:
                for allowed, expected in ((['raw', 'qcow2', 'vmdk'], 'vhd'),
                                          (['raw', 'qcow2', 'vmdk'], 'vmdk'),
                                          (['vhdx'], None)):
                    sa_a = sa
                    base_a, _ = _fault_free_canon(data, chunks, kind, allowed)
                    for fl in (None, (('vmdk', 1, 'RuntimeError'),), (('vhd', 1, 'RuntimeError'),)):
                        faults = {n: (j, EXC[c]('injected')) for n, j, c in (fl or ())
                                  if n in allowed}
                        obs = execute(data, chunks, kind, expected, allowed, False, faults)
                        bad, pred = compare(data, chunks, kind, expected, allowed, faults, sa_a,
                                            obs, base_a)
                        out['executions'] += 1
                        out['transitions'] += len(obs['delivered'])
                        out['comparisons'] += 1
                        if bad and len(out['problems']) < 10:
                            out['problems'].append({
                                'source': name, 'cuts': list(cuts), 'kind': kind,
                                'empty_at': None,
                                'expected': expected, 'reverse': False, 'allowed': allowed,
                                'faults': [list(f) for f in (fl or ())],
                                'clauses': [(c, d) for c, d in bad[:4]]})
    out['ms'] = int((time.time() - t0) * 1000)
    return out


def run(ctx):
    global _SOURCES
    from vlib.mc import stream as S    # noqa: F401
    rep = ctx.new_report()
    _SOURCES = sources(ctx)
    jobs = []
    for si, (name, data, cutset) in enumerate(_SOURCES):
        nsub = 2 ** len(cutset)
        step = 2
        for lo in range(0, nsub, step):
            jobs.append((si, lo, lo + step, ctx.thorough, ctx.seed))
    hashes = set()
    outcomes = set()
    for out in par.pmap(_job, jobs):
        rep.count('evaluations', out['executions'])
        rep.count('executions', out['executions'])
        rep.count('transitions', out['transitions'])
        rep.count('traces_validated_against_impl', out['comparisons'])
        rep.count('executions_with_abort', out['aborts'])
        rep.count('injected_faults_fired', out['faults_fired'])
        rep.count('cpu_ms', out['ms'])
        hashes |= out['state_hashes']
        outcomes |= out['outcomes']
        for p in out['problems']:
            rep.fail(p['clauses'][0][0],
                     {k: p[k] for k in ('source', 'cuts', 'kind', 'empty_at', 'expected', 'reverse',
                                        'faults', 'clauses')},
                     {k: p.get(k) for k in ('source', 'cuts', 'kind', 'empty_at', 'expected',
                                            'reverse', 'faults', 'allowed')})
    rep.counters['states'] = len(hashes)
    for h in hashes:
        rep.distinct.add(h.to_bytes(8, 'little', signed=True))
    rep.count('distinct_outcome_classes', len(outcomes))
    rep.sample({'source': 'qcow2', 'cuts': [64, 512], 'kind': 'iter', 'expected': 'qcow2',
                'reverse': True, 'faults': [['qcow2', 2, 'struct.error']]})
    rep.sample({'source': 'zeros40k', 'cuts': [4096], 'kind': 'file', 'expected': None,
                'reverse': False, 'faults': [['gpt', 1, 'RuntimeError'], ['luks', 1, 'struct.error']]})
    rep.notes['rule'] = (
        'one execution = (source, read sequence, source protocol, '
        'expected_format, iteration order, fault set) run to completion on '
        'the real wrapper and compared with the reference prediction. '
        'states = distinct canonical end states of the wrapper; '
        'distinct_nontrivial counts those.')
    rep.notes['bounds'] = {
        'sources': [s[0] for s in _SOURCES], 'cut_positions_per_source': 5,
        'expected_formats': 12, 'fault_classes': list(EXC),
        'single_faults': 'every inspector x every call index (all 4 classes at call 1%s)'
                         % (' and elsewhere' if ctx.thorough else ', RuntimeError elsewhere'),
        'pairs': 'all inspector pairs x call indices {1,2}^2 on every 8th read sequence'
                 if not ctx.thorough else 'all inspector pairs x {1,2}^2 on every read sequence'}
    rep.notes['assumptions'] = [
        'stand-alone inspectors are the reference for what each inspector does with a chunk sequence',
        'per-instance replacement of eat_chunk is how faults are injected (no source hook)']
    return rep


def replay(payload):
    src = {s[0]: s for s in sources(type('C', (), {'thorough': True})())}
    name, data, _ = src[payload['source']]
    chunks = plan_chunks(data, payload['cuts'], payload.get('empty_at'))
    kind = payload['kind']
    feed = chunks + [b''] if kind == 'file' else chunks
    sa = standalone(feed)
    allowed = payload.get('allowed')
    base, _ = _fault_free_canon(data, chunks, kind, allowed)
    from oslo_utils.imageutils import format_inspector as fi
    faults = {}
    for n, j, cname in payload['faults']:
        cls = EXC[cname] or fi.ImageFormatError
        faults[n] = (j, cls('injected'))
    obs = execute(data, chunks, kind, payload['expected'], allowed, payload['reverse'], faults)
    bad, pred = compare(data, chunks, kind, payload['expected'], allowed, faults, sa, obs, base)
    return {'violates': bool(bad), 'clauses': bad[:6], 'predicted_abort': pred['abort'],
            'raised': None if obs['raised'] is None else
            [obs['raised'][0], type(obs['raised'][1]).__name__],
            'calls': obs['calls'], 'source_pos': obs['pos']}
