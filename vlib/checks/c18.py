"""C18 - the spec matcher implements its documented operator table.

Engine C: every operator x operand pair x whitespace form, compared with the
table in make_grammar's docstring: numeric comparison for = (meaning >=), ==,
!=, <, <=, >, >=; string comparison for the s-prefixed operators; substring
test for <in>; all items present for <all-in>; equality with any alternative
for <or>; interval membership with open/closed ends for <range-in>; plain
string equality without an operator.
"""
import itertools
import operator

from vlib.mc import enum as E

PROPERTY = 'C18'
LEVEL = 'model_checking'
ENGINE = 'C'
TECHNIQUE = ('stateless bounded model checking: complete enumeration of operator x operand-pair x '
             'whitespace-form products against the documented operator table')
LEVEL_TEXT = ('All 7 numeric operators x all ordered pairs of 13 numeric '
              'spellings (negative, signed, decimal, leading-zero, exponent) x '
              '4 whitespace forms; all 6 string operators x all pairs of 12 '
              'strings; operator-free equality; <in>; <or> with 1..4 '
              'alternatives; <all-in> with 1..3 (possibly repeated) items '
              'against list literals; <range-in> with all four bracket '
              'combinations and values on, inside and outside both ends: '
              'match() must equal the documented meaning.')
LEVEL_NOTE = ('Numbers are compared as float() of both sides, as the table says (so '
              'integers above 2^53 collapse onto their nearest double). Every spec is '
              'also matched against its own text as the value. Malformed specs (bad '
              'brackets, non-list values) are not classified.')

NUMS = ['-1', '0', '1', '1.5', '2', '9', '09', '10', '1e1', '+1', '.5', '-0.5', '100',
        '999999999', '1000000000', '4294967296', '4294967297', '2.0000000001', '2.0000000002',
        # integers a double cannot hold: the table says float(), so neighbours collapse
        '9007199254740992', '9007199254740993', '9007199254740994', '100000000000000001']
NUM_OPS = {'=': operator.ge, '==': operator.eq, '!=': operator.ne, '<': operator.lt,
           '<=': operator.le, '>': operator.gt, '>=': operator.ge}
STRS = ['a', 'b', 'ab', 'abc', 'B', '10', '9', '2.1.0', 'x-y', 'a,b', 'gcc', 'z_z', '\u00e9', 'caf\u00e9', '\u4e2d\u6587']
STR_OPS = {'s==': operator.eq, 's!=': operator.ne, 's<': operator.lt, 's<=': operator.le,
           's>': operator.gt, 's>=': operator.ge}
WS = ['%s %s', '%s  %s', ' %s %s', '%s %s ', '%s%s']


def call(value, spec):
    from oslo_utils import specs_matcher
    out = []
    for _ in (1, 2):          # asked twice: the answer must not depend on earlier calls
        try:
            out.append(('ret', specs_matcher.match(value, spec)))
        except Exception as e:
            out.append(('raises', type(e).__name__))
    if out[0] != out[1]:
        return ('raises', 'UnstableAnswer:%r-then-%r' % (out[0], out[1]))
    return out[0]


def judge(acc, value, spec, want, kind, self_want='no-true'):
    got = call(value, spec)
    acc.nontrivial('%s|%s' % (value, spec))
    if got[0] != 'ret' or bool(got[1]) is not want:
        acc.fail('%s' % kind, {'value': value, 'spec': spec, 'got': repr(got), 'want': want},
                 {'value': value, 'spec': spec, 'want': want})
    # the same spec against a value that is the spec text itself (a relation
    # between the two arguments no operand pool produces): the operator still
    # compares the value with the *operand*. self_want is True/False where the
    # table defines the answer, 'no-true' where the documented conversion of the
    # value (float(), list literal) cannot succeed: then anything but "matches"
    # is accepted.
    acc.counters['evaluations'] += 1
    got = call(spec, spec)
    if self_want == 'no-true':
        bad = got[0] == 'ret' and bool(got[1])
    else:
        bad = got[0] != 'ret' or bool(got[1]) is not self_want
    if bad:
        acc.fail('%s:value-is-the-spec-text' % kind,
                 {'value': spec, 'spec': spec, 'got': repr(got), 'want': self_want},
                 {'value': spec, 'spec': spec, 'want': self_want})


def _num_case(vals, acc):
    op, x, y, ws = vals
    judge(acc, x, ws % (op, y), NUM_OPS[op](float(x), float(y)), 'numeric:' + op)


def _str_case(vals, acc):
    op, x, y, ws = vals
    spec = ws % (op, y)
    judge(acc, x, spec, STR_OPS[op](x, y), 'string:' + op, self_want=STR_OPS[op](spec, y))


def _plain_case(vals, acc):
    x, y = vals
    acc.counters['evaluations'] += 2          # three (value, spec) pairs per case
    judge(acc, x, y, x == y, 'plain-equality', self_want=True)
    # blanks around an operator-free spec do not belong to the word
    for padded in (' ' + y, y + ' ', '\t' + y + '\n'):
        acc.counters['evaluations'] += 1
        got = call(x, padded)
        if got[0] != 'ret' or bool(got[1]) is not (x == y):
            acc.fail('plain-equality:padded-spec', {'value': x, 'spec': padded, 'got': repr(got),
                                                    'want': x == y},
                     {'value': x, 'spec': padded, 'want': x == y})
            break
    judge(acc, x, '<in> ' + y, y in x, '<in>', self_want=True)
    judge(acc, x + y + x, '<in> %s' % y, True, '<in>', self_want=True)


def _or_case(vals, acc):
    x, alts = vals
    spec = ' '.join('<or> ' + a for a in alts)
    judge(acc, x, spec, x in alts, '<or>', self_want=False)
    # the operator word is not one of the alternatives
    acc.counters['evaluations'] += 1
    got = call('<or>', spec)
    if got[0] != 'ret' or bool(got[1]) is not ('<or>' in alts):
        acc.fail('<or>:value-is-the-operator-word', {'value': '<or>', 'spec': spec, 'got': repr(got),
                                                     'want': '<or>' in alts},
                 {'value': '<or>', 'spec': spec, 'want': '<or>' in alts})


LISTS = ["['aes']", "['aes', 'mmx']", "['aes', 'mmx', 'sse']", "[]", "['mmx']",
         # legal list literals whose elements are not all strings / not hashable
         "[[], 'aes']", "[{'avx': 1}, 'aes', 'mmx']", "[('aes',), 'mmx']", "[1, 'aes', None]",
         "['aes', ['mmx'], {'avx'}]", "[[['aes']]]"]
ITEMS = ['aes', 'mmx', 'avx']


def _allin_case(vals, acc):
    import ast
    lit, items = vals
    lst = ast.literal_eval(lit)
    judge(acc, lit, '<all-in> ' + ' '.join(items), all(i in lst for i in items), '<all-in>')


def _range_case(vals, acc):
    lo_b, hi_b, lo, hi, v = vals
    x, a, b = float(v), float(lo), float(hi)
    if a > b:
        return
    want = (x >= a if lo_b == '[' else x > a) and (x <= b if hi_b == ']' else x < b)
    judge(acc, v, '<range-in> %s %s %s %s' % (lo_b, lo, hi, hi_b), want,
          '<range-in>:%s%s' % (lo_b, hi_b))


def run(ctx):
    rep = ctx.new_report()
    from vlib.ref import noise as _noise
    E.set_noise(_noise.specs_noise())
    nums = NUMS + ['%d' % (3 + ctx.seed % 90)]
    E.run(rep, 'numeric', [list(NUM_OPS), nums, nums, WS], _num_case)
    E.run(rep, 'string', [list(STR_OPS), STRS, STRS, WS], _str_case)
    E.run(rep, 'plain', [STRS, STRS], _plain_case)
    # a quote is ordinary punctuation: operands bracketed by a matching pair of quotes
    quoted = ['"abc"', "'abc'", '""', '"a', 'a"', '"a"b"', 'abc']
    E.run(rep, 'string-quoted', [list(STR_OPS), quoted, quoted, WS[:2]], _str_case)
    E.run(rep, 'plain-quoted', [quoted, quoted], _plain_case)
    brackets = ['f(x)', 'Xeon(R)', '[a]', 'a)', 'f', '(', 'a[0]', 'x)(y']
    E.run(rep, 'string-brackets', [list(STR_OPS), brackets, brackets, WS[:2]], _str_case)
    E.run(rep, 'plain-brackets', [brackets, brackets], _plain_case)
    E.run(rep, 'or-brackets', [brackets[:4], [(a, b) for a in brackets[:5] for b in brackets[:5]]], _or_case)
    E.run(rep, 'or-quoted', [quoted[:4], [(a, b) for a in quoted[:4] for b in quoted[:4]]], _or_case)
    alts = []
    for n in (1, 2, 3, 4):
        alts += list(itertools.product(STRS[:5], repeat=n)) if n <= 3 else \
            list(itertools.product(STRS[:3], repeat=n))
    E.run(rep, 'or', [STRS[:6], alts], _or_case)
    items = []
    for n in (1, 2, 3):
        items += list(itertools.product(ITEMS, repeat=n))
    E.run(rep, 'all-in', [LISTS, items], _allin_case)
    vals = ['9', '10', '10.0', '10.5', '15', '19.999', '20', '20.0', '21', '-5', '1e1', '2e1']
    E.run(rep, 'range-in', [['[', '('], [']', ')'], ['10', '10.0', '-5', '20'], ['20', '20.0', '10', '1e1'],
                            vals], _range_case)
    big = ['9007199254740991', '9007199254740992', '9007199254740993', '9007199254740994',
           '100000000000000000', '100000000000000001', '1']
    E.run(rep, 'range-in-big', [['[', '('], [']', ')'], big, big, big], _range_case)
    rep.sample({'value': '20', 'spec': '<range-in> ( 10 20 )', 'want': False})
    rep.sample({'value': '3', 'spec': '>= -1', 'want': True})
    rep.sample({'value': "['aes']", 'spec': '<all-in> aes aes', 'want': True})
    rep.notes['rule'] = ('complete products per operator family; every (value, spec) pair is a '
                         'distinct case with an exact expected truth value')
    rep.notes['bounds'] = {'numbers': nums, 'strings': STRS, 'whitespace_forms': WS,
                           'or_alternatives': '1..4', 'all_in_items': '1..3 from %r' % ITEMS}
    return rep


def replay(payload):
    got = call(payload['value'], payload['spec'])
    return {'violates': got[0] != 'ret' or bool(got[1]) is not payload['want'], 'got': repr(got)}
