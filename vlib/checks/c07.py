"""C07 - virtual_size equals the disk size the image declares.

Engine A over well-formed images built by the layout builders with boundary
sizes in every size field and the admissible layouts of VHDX / VMDK / ISO /
LUKS: every chunking over the cut candidates (all byte positions for the small
formats in the thorough tier). Oracles: T2 - every terminal state reports the
declared size; I3 - for qcow2, VHD, VHDX, VMDK, VDI and ISO virtual_size is 0 in
every state whose position lies before the end of the structure carrying the
size, and the declared size in every state at or after it.
"""
import time

from vlib import par
from vlib.checks.c01 import pack, unpack, thin, GENERIC_POINTS
from vlib.img import build as B

PROPERTY = 'C07'
LEVEL = 'model_checking'
ENGINE = 'A'
TECHNIQUE = ('explicit-state exploration of the real inspectors over all '
             'chunkings of builder-made images; declared size from the layout '
             'builder as reference, checked in every reachable state')
LEVEL_TEXT = ('For every (size, layout) of the enumerated family the real inspector (and the '
'InspectWrapper-selected inspector) is driven through all subsets of the cut '
'candidates; every terminal state must report exactly the size the builder '
'wrote, and every intermediate state 0 before / the size after the carrying '
'structure ends. Streams with structures beyond 4 GiB are delivered piecewise '
'(two chunk sizes) without being materialised.')
LEVEL_NOTE = ('Trusted: the layout builders (vlib/img/build.py), written from '
              'the format documents. Sizes are boundary values and seed '
              'values, not all 2^64; layouts are the listed ones.')

ZERO_UNTIL = ('qcow2', 'vhd', 'vhdx', 'vmdk', 'vdi', 'iso')
_IMAGES = []


def sizes64(seed):
    s = {0, 1, (1 << 64) - 1, (1 << 64) - 2}
    for k in (9, 16, 31, 32, 33, 62, 63):
        s.update(((1 << k) - 1, 1 << k, (1 << k) + 1))
    for i in range(3):
        s.add(int.from_bytes(B.filler(seed, 8, 100 + i), 'little'))
    # size constants the code under test has and the pinned tree had not (vlib/lits.py)
    from vlib import lits
    for v in lits.new('oslo_utils/imageutils/format_inspector.py')['ints']:
        for w in (v - 1, v, v + 1, v * 512, v << 20):
            if 0 <= w < 1 << 64:
                s.add(w)
    return sorted(s)


def family(ctx):
    seed, full = ctx.seed, ctx.thorough
    S64 = sizes64(seed)
    three = [S64[3], (1 << 32) + 1, int.from_bytes(B.filler(seed, 8, 100), 'little')]
    out = []

    def add(im, tag):
        im.name = '%s[%s]' % (im.fmt, tag)
        out.append(im)

    for sz in S64:
        add(B.qcow2(size=sz, version=3, length=700), 'v3 size=%d' % sz)
        add(B.vhd(size=sz, length=700), 'size=%d' % sz)
        add(B.vdi(size=sz, length=700), 'size=%d' % sz)
        add(B.vhdx(size=sz), 'size=%d' % sz)
        add(B.vmdk(capacity_sectors=sz, desc_num=2), 'sectors=%d' % sz)
    for sz in three:
        add(B.qcow2(size=sz, version=2, length=512), 'v2 size=%d' % sz)
        add(B.qcow2(size=sz, version=3, length=2000, fill_irrelevant=True, seed=seed), 'v3 filled size=%d' % sz)
        add(B.vmdk(capacity_sectors=sz, desc_num=2, footer='good', ctype='streamOptimized'),
            'footer sectors=%d' % sz)
    # VHDX layouts
    pads_r = [0, 1, 2, 2045, 2046]
    pads_i = [0, 1, 2045, 2046]
    metas = [256 * 1024, 1 << 20, (2 << 20) + 4096]
    items = [65536, 65536 + 8, (1 << 20) - 8]
    layouts = []
    if full:
        for a in pads_r:
            for b in pads_i:
                for c in metas:
                    for d in items:
                        layouts.append((a, b, c, d))
    else:
        for a in pads_r:
            layouts.append((a, 0, metas[0], items[0]))
        for b in pads_i:
            layouts.append((1, b, metas[0], items[0]))
        for c in metas:
            layouts.append((1, 1, c, items[1]))
        for d in items:
            layouts.append((2, 2, metas[1], d))
        layouts.append((2046, 2046, metas[0], items[0]))
    for (a, b, c, d) in layouts:
        for sz in (three if full else three[:2]):
            add(B.vhdx(size=sz, pad_regions_before=a, pad_regions_after=0 if a == 2046 else 1,
                       pad_items_before=b, pad_items_after=0 if b == 2046 else 1,
                       meta_offset=c, item_offset=d),
                'pr=%d pi=%d meta=%#x item=%#x size=%d' % (a, b, c, d, sz))
    # VMDK descriptor lengths
    for n in (1, 2, 20, 2047) + ((2048,) if full else ()):
        for foot in (None, 'good'):
            for sz in three[:2]:
                add(B.vmdk(capacity_sectors=sz, desc_num=n, footer=foot,
                           ctype='streamOptimized' if foot else 'monolithicSparse'),
                    'desc_num=%d footer=%s sectors=%d' % (n, foot, sz))
    # VMDK descriptors that fill their sectors exactly (no NUL padding), the type line last / not last
    for n in (1, 2, 3):
        for last in ('ctype', 'nl', 'comment'):
            for foot in (None, 'good'):
                sz = three[(n + len(last)) % 2]
                ct = 'streamOptimized' if foot else 'monolithicSparse'
                add(B.vmdk(capacity_sectors=sz, desc_num=n, footer=foot, ctype=ct,
                           descriptor=B.vmdk_descriptor_exact(n * 512, ct, sz, last)),
                    'exact-fill desc_num=%d last=%s footer=%s sectors=%d' % (n, last, foot, sz))
    # VMDK descriptor region with stale bytes after the NUL that ends the descriptor text
    for n in (2, 20):
        for slack in (b'ddb.comment = "stale text after the terminator"\n', 'caf\u00e9 r\u00e9sum\u00e9\n'.encode('utf-8') * 3,
                      b'\xff', b'\x00\x00\xfe\x80' * 16):
            for foot in (None, 'good'):
                ct = 'streamOptimized' if foot else 'monolithicSparse'
                d0 = B.vmdk_descriptor(ct, three[0])
                add(B.vmdk(capacity_sectors=three[0], desc_num=n, footer=foot, ctype=ct,
                           descriptor=d0 + b'\x00' + slack),
                    'slack after NUL %r desc_num=%d footer=%s' % (slack[:6], n, foot))
    # ISO
    for bs in (512, 1024, 2048, 4096, 65535):
        for blocks in (0, 1, 2, 0x7fffffff, 0x80000000, 0xffffffff,
                       int.from_bytes(B.filler(seed, 4, 7), 'little')):
            add(B.iso(blocks=blocks, block_size=bs, length=B.ISO_END + 100),
                'blocks=%d bs=%d' % (blocks, bs))
    add(B.iso(blocks=5, block_size=2048, ident=b'NSR03', length=B.ISO_END), 'udf exact length')
    # LUKS: stream length - payload offset
    for payload in (0, 1, 8, 4096):
        for extra in (592, 593, 1024, 5000):
            ln = max(payload * 512, 0) + extra
            add(B.luks(version=1, payload_sectors=payload, length=ln),
                'payload=%d len=%d' % (payload, ln))
    # raw and GPT: stream length
    for n in (0, 1, 511, 512, 513, 4097):
        add(B.raw('random', n, seed) if n >= 8 else B.raw('zeros', n), 'len=%d' % n)
        if n >= 512:
            add(B.mbr([B.PTE_GPT], length=n), 'len=%d' % n)
            add(B.mbr([B.PTE_LINUX], length=n), 'mbr len=%d' % n)
    return out


def _job(job):
    idx, sysname, mode, seed, thorough = job
    from vlib.mc import stream as S
    from vlib.checks import c01
    im = _IMAGES[idx]
    data = im.data
    t0 = time.time()
    if sysname == 'wrapper':
        system = S.WrapperSystem()
        cuts = c01.cuts_for(S, system, im, seed, 14)
    else:
        system = S.InspectorSystem(sysname)
        if mode == 'all':
            cuts = list(range(1, len(data)))
        else:
            cuts = c01.cuts_for(S, system, im, seed, 64 if thorough else 44)
    bad = []
    checked = [0]

    def on_state(obj, p, path, res):
        if sysname not in ZERO_UNTIL:
            return
        checked[0] += 1
        got = S._q(lambda: obj.virtual_size)
        want = 0 if p < im.size_end else im.size
        if got != want and len(bad) < 5:
            bad.append({'p': p, 'got': got, 'want': want, 'path': list(path)})

    r = S.explore(system, data, cuts, on_state=on_state if sysname != 'wrapper' else None)
    terms = []
    if sysname != 'wrapper' and mode == 'cand':
        # the same bytes as memoryview slices of one re-used read buffer
        from vlib.checks.c01 import spread
        for kind in ('bytearray', 'memoryview'):
            tv, _tb = S.typed_run(sysname, data, spread(cuts, 5), kind)
            got = tv[2] if len(tv) == 4 else ('error', repr(tv))
            terms.append({'got': got, 'fmt': None, 'path': ['typed', kind] + spread(cuts, 5)})
    for v, path in r.verdicts.items():
        if sysname == 'wrapper':
            got = v[2][2] if (len(v) == 3 and v[2] is not None) else ('no-format', repr(v[:2]))
            fmt = v[1]
        else:
            got = v[2] if len(v) == 4 else ('error', repr(v))
            fmt = None
        terms.append({'got': got, 'fmt': fmt, 'path': list(path)})
    return {'idx': idx, 'system': sysname, 'mode': mode, 'ncuts': len(cuts),
            'states': r.states, 'transitions': r.transitions,
            'comparisons': r.comparisons + checked[0], 'terms': terms,
            'bad': bad, 'caps': r.caps, 'ms': int((time.time() - t0) * 1000)}


# ---------------------------------------------------------------------------
# structures beyond 4 GiB: offsets that do not fit 32 bits. The stream is never
# materialised: it is a list of pieces, ('zeros', n) standing for n zero bytes
# delivered from one re-used block.

ZERO_BLOCK = bytes(4 << 20)


def huge_cases(seed):
    out = []
    G4 = 1 << 32
    for big in (G4, G4 + (1 << 20), G4 - 65536, (1 << 33) + 4096):
        small = 1 << 20
        im = B.vhdx(size=(seed % 50 + 3) << 30, meta_offset=small)
        d = bytearray(im.data)
        # the metadata region entry of the region table: 64-bit file offset
        at = d.index(struct_pack_q(small), B.VHDX_HEADER)
        d[at:at + 8] = struct_pack_q(big)
        out.append(('vhdx', 'vhdx metadata region at %#x' % big,
                    [bytes(d[:small]), ('zeros', big - small), bytes(d[small:])], im.size))
    for sectors in ((1 << 23) + 8, (1 << 24) + 1):
        h = B.luks(version=1, payload_sectors=sectors, length=592).data
        total = sectors * 512 + (1 << 20) + 5
        out.append(('luks', 'luks payload at sector %d' % sectors, [h, ('zeros', total - 592)],
                    total - sectors * 512))
    out.append(('raw', 'raw 4 GiB + 5', [('zeros', G4 + 5)], G4 + 5))
    return out


def struct_pack_q(v):
    import struct
    return struct.pack('<Q', v)


def feed_pieces(eat, pieces, chunk):
    """Deliver the pieces in chunks of `chunk` bytes (pieces are not merged across their
    borders: each border is a cut as well)."""
    for pc in pieces:
        if isinstance(pc, tuple):
            n = pc[1]
            while n > 0:
                k = min(n, chunk)
                eat(ZERO_BLOCK[:k] if k != len(ZERO_BLOCK) else ZERO_BLOCK)
                n -= k
        else:
            for i in range(0, len(pc), chunk):
                eat(pc[i:i + chunk])


def _huge_job(job):
    ci, chunk, via, seed = job
    from oslo_utils.imageutils import format_inspector as fi
    from vlib.mc import stream as S
    fmt, name, pieces, declared = huge_cases(seed)[ci]
    try:
        if via == 'inspector':
            insp = fi.ALL_FORMATS[fmt]()
            feed_pieces(insp.eat_chunk, pieces, chunk)
            insp.finish()
            got = (S._q(lambda: bool(insp.format_match)), S._q(lambda: insp.virtual_size))
        else:
            class Feeder:
                buf = b''

                def read(self, n):
                    b, self.buf = self.buf, b''
                    return b
            src = Feeder()
            w = fi.InspectWrapper(src)

            def eat(c):
                src.buf = c
                w.read(len(c))
            feed_pieces(eat, pieces, chunk)
            w.close()
            f = w.format
            got = (str(f) == fmt, S._q(lambda: f.virtual_size))
    except Exception as e:
        got = ('raises', type(e).__name__, str(e)[:80])
    return {'case': ci, 'name': name, 'chunk': chunk, 'via': via, 'got': got, 'want': (True, declared)}


def run_huge(ctx, rep):
    from vlib import par as _par
    n = len(huge_cases(ctx.seed))
    jobs = [(ci, chunk, via, ctx.seed) for ci in range(n) for chunk in (4 << 20, (1 << 20) + 17)
            for via in ('inspector', 'wrapper')]
    for r in _par.pmap(_huge_job, jobs):
        rep.count('huge_offset_runs')
        rep.count('evaluations')
        rep.count('traces_validated_against_impl')
        rep.nontrivial('huge/%s/%d/%s' % (r['name'], r['chunk'], r['via']))
        if tuple(r['got']) != tuple(r['want']):
            rep.fail('T2-beyond-4GiB:%s' % r['name'].split(' ')[0],
                     {'stream': r['name'], 'chunk_size': r['chunk'], 'via': r['via'],
                      'reported': list(r['got']), 'expected': list(r['want'])},
                     {'huge': [r['case'], r['chunk'], r['via']], 'kind': 'huge'})


def run(ctx):
    global _IMAGES
    from vlib.mc import stream as S    # noqa: F401
    rep = ctx.new_report()
    _IMAGES = family(ctx)
    jobs = []
    for idx, im in enumerate(_IMAGES):
        jobs.append((idx, im.fmt, 'cand', ctx.seed, ctx.thorough))
        if len(im.data) <= 1100 and im.fmt != 'vmdk' and (
                ctx.thorough or idx % 25 == ctx.seed % 25):
            # every byte position is a cut: all 2^(L-1) chunkings, every prefix
            jobs.append((idx, im.fmt, 'all', ctx.seed, ctx.thorough))
        if idx % (2 if ctx.thorough else 4) == 0 and im.fmt != 'raw':
            jobs.append((idx, 'wrapper', 'cand', ctx.seed, ctx.thorough))
    jobs.sort(key=lambda j: -len(_IMAGES[j[0]].data) * (3 if j[1] == 'wrapper' else 1))
    sizes_seen = set()
    for r in par.pmap(_job, jobs):
        im = _IMAGES[r['idx']]
        rep.count('states', r['states'])
        rep.count('transitions', r['transitions'])
        rep.count('traces_validated_against_impl', r['comparisons'] + len(r['terms']))
        rep.count('explorations')
        rep.count('evaluations')
        rep.count('cpu_ms:%s' % im.fmt, r['ms'])
        for c in r['caps']:
            rep.caps_hit.append('%s/%s: %s' % (im.name, r['system'], c))
        if im.size not in (None, 0) and r['ncuts'] >= 2:
            rep.nontrivial('%s/%s/%s' % (im.name, r['system'], r['mode']))
            sizes_seen.add((im.fmt, im.size))
        base = {'image': pack(im.data), 'image_name': im.name,
                'system': r['system'], 'declared': im.size,
                'size_end': im.size_end, 'fmt': im.fmt}
        for t in r['terms']:
            ok = t['got'] == im.size
            if r['system'] == 'wrapper':
                ok = ok and t['fmt'] == ('fmt', im.fmt)
            if not ok:
                rep.fail('T2:%s:%s' % (r['system'], im.fmt),
                         {'image': im.name, 'system': r['system'], 'declared': im.size,
                          'reported': t['got'], 'format': t['fmt'], 'path': t['path'][-5:]},
                         dict(base, kind='T2', path=t['path']))
        for b in r['bad']:
            rep.fail('I3:%s:%s' % (im.fmt, 'early' if b['want'] == 0 else 'late'),
                     {'image': im.name, 'position': b['p'], 'reported': b['got'],
                      'expected': b['want'], 'path': b['path'][-5:]},
                     dict(base, kind='I3', path=b['path'], position=b['p']))
    run_huge(ctx, rep)
    rep.count('images', len(_IMAGES))
    rep.count('distinct_format_size_pairs', len(sizes_seen))
    for im in (_IMAGES[3], _IMAGES[len(_IMAGES) // 2], _IMAGES[-1]):
        rep.sample({'image': im.name, 'len': len(im.data), 'declared': im.size})
    rep.notes['rule'] = (
        'one exploration = (builder-made well-formed image, own-format '
        'inspector or wrapper): all subsets of the cut set on the real object; '
        'T2 at every terminal state, I3 in every state. Non-trivial = declared '
        'size is non-zero and the exploration had >= 2 cuts; counted once per '
        '(image, system, mode).')
    rep.notes['bounds'] = {'images': len(_IMAGES),
                           'sizes_per_64bit_field': len(sizes64(ctx.seed)),
                           'max_cuts': 64 if ctx.thorough else 44,
                           'all_positions_up_to_bytes': 1100,
                           'all_positions_runs': 'every small image' if ctx.thorough else 'every 25th small image (seed-rotated)'}
    rep.notes['assumptions'] = ['layout builders are a faithful reference of where each format stores its size']
    return rep


def replay(payload):
    from vlib.mc import stream as S
    if payload.get('kind') == 'huge':
        import os
        ci, chunk, via = payload['huge']
        r = _huge_job((ci, chunk, via, int(os.environ.get('VERIF_SEED', '0'))))
        return {'violates': tuple(r['got']) != tuple(r['want']), 'reported': list(r['got']),
                'expected': list(r['want'])}
    data = unpack(payload['image'])
    system = (S.WrapperSystem() if payload['system'] == 'wrapper'
              else S.InspectorSystem(payload['system']))
    if payload['path'][:1] == ['typed']:
        tv, _tb = S.typed_run(payload['system'], data, payload['path'][2:], payload['path'][1])
        got = tv[2] if len(tv) == 4 else None
        return {'violates': got != payload['declared'], 'reported': got, 'typed_verdict': repr(tv)}
    obj, trace = S.replay_path(system, data, payload['path'], queries=True)
    if payload['kind'] == 'T2':
        v = trace[-1].get('verdict') if trace else None
        if payload['system'] == 'wrapper':
            got = v[2][2] if (v and v[2] is not None) else None
            ok = got == payload['declared'] and v[1] == ('fmt', payload['fmt'])
        else:
            got = v[2] if v else None
            ok = got == payload['declared']
        return {'violates': not ok, 'reported': got, 'declared': payload['declared'],
                'verdict': v}
    got = S._q(lambda: obj.virtual_size)
    want = 0 if payload['position'] < payload['size_end'] else payload['declared']
    return {'violates': got != want, 'reported': got, 'expected': want,
            'position': payload['position']}
