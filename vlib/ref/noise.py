"""Background calls for Engine C (see vlib/mc/enum.py NOISE): a rotation of benign calls
of the public functions of a module, made between the cases of a check of that module."""


def strutils_noise():
    from oslo_utils import strutils as s
    return [
        lambda: s.mask_password('x password=abc y', 'N01SE'),
        lambda: s.mask_dict_password({'password': 'p', 'a': {'token': 't', 'n': 'token=t'}}, 'N01SE'),
        lambda: s.bool_from_string('yes'),
        lambda: s.bool_from_string('nope', strict=False, default=True),
        lambda: s.string_to_bytes('3Kib', 'mixed', True),
        lambda: s.string_to_bytes('1.5GB', 'SI'),
        lambda: s.split_by_commas('a,"b,c"'),
        lambda: s.split_path('/a/b', 1, 2, True),
        lambda: s.to_slug('N oise \u00e9'),
        lambda: s.validate_integer('7', 'n', 0, 9),
        lambda: s.is_int_like('12'),
        lambda: s.check_string_length('ab', 'n', 1, 3),
        lambda: s.is_valid_boolstr('off'),
    ]


def netutils_noise():
    from oslo_utils import netutils as n
    return [
        lambda: n.is_valid_ipv4('10.0.0.1'),
        lambda: n.is_valid_ipv6('fe80::1%lo'),
        lambda: n.is_valid_ip('::ffff:1.2.3.4'),
        lambda: n.is_valid_cidr('10.0.0.0/8'),
        lambda: n.is_valid_ipv6_cidr('2001:db8::/48'),
        lambda: n.is_valid_mac('52:54:00:cf:2d:31'),
        lambda: n.is_valid_port('80'),
        lambda: n.parse_host_port('[::1]:80'),
        lambda: n.escape_ipv6('::1'),
        lambda: n.get_ipv6_addr_by_EUI64('fd00::/64', '00:16:3e:33:44:55'),
        lambda: n.urlsplit('http://u@h:1/p?a=1&a=2#f').params(),
    ]


def versionutils_noise():
    from oslo_utils import versionutils as v
    return [
        lambda: v.is_compatible('1.0', '1.1'),
        lambda: v.VersionPredicate('>=1.0,<3').satisfied_by('2.0'),
        lambda: v.convert_version_to_int('1.2.3'),
        lambda: v.convert_version_to_str(1002003),
        lambda: v.convert_version_to_tuple('6.7.0rc1'),
    ]


def specs_noise():
    from oslo_utils import specs_matcher as m
    return [
        lambda: m.match('5', '>= 3'),
        lambda: m.match('abc', 's== abc'),
        lambda: m.match("['a']", '<all-in> a'),
        lambda: m.make_grammar(),
    ]


def encode_noise():
    from oslo_utils import encodeutils as e
    return [
        lambda: e.safe_decode(b'x\x00', 'utf-16-le'),
        lambda: e.safe_encode('\u00e9', encoding='latin-1'),
        lambda: e.safe_encode(b'\xe9', 'latin-1', 'utf-8'),
        lambda: e.to_utf8('\u00e9'),
    ]
