"""Signature predicates of the recorded findings of the image inspectors.

Each predicate is computed from the *bytes of the stream alone* (plus which
inspector(s) are running), never from what the implementation did with them.
See DESIGN.md sec. 7 for the derivations.
"""
import struct
import uuid

DESC_MAX = (1 << 20) - 1
_META = uuid.UUID('8B7CA206-4790-4B9A-B8FE-575F050F886E').bytes_le
_VDS = uuid.UUID('2FA54224-CD1B-4876-B211-5DBED83BF4B8').bytes_le


def is_text(b):
    try:
        s = b.decode('ascii')
    except UnicodeDecodeError:
        return False
    return all(c.isprintable() or c.isspace() for c in s)


def f1_vmdk_text(data):
    """VMDK text-descriptor mode: (a) 'is this text?' is judged on however many
    of bytes 64..512 the completing chunk delivered; (b) the descriptor is
    parsed once, from the bytes present when 4 bytes had arrived."""
    L = len(data)
    if data[:4] == b'KDMV':
        return False
    text_mode_reachable = L < 64 or is_text(data[:64])
    if L >= 64 and is_text(data[:64]) and not is_text(data[64:min(512, L)]):
        return True
    if text_mode_reachable and b'createtype="' in data[:DESC_MAX].lower():
        return True
    return False


def vhdx_pointers(data):
    """Reference walk of the VHDX tables. -> dict with meta_offset,
    item_offset, meta_count (None where the walk stops)."""
    out = {'meta_offset': None, 'item_offset': None, 'meta_count': None,
           'item_length': None}
    if len(data) < 256 * 1024:
        return out
    hdr = data[192 * 1024:256 * 1024]
    sig, _ck, count, _r = struct.unpack('<4sIII', hdr[:16])
    if sig != b'regi' or count >= 2048:
        return out
    for i in range(count):
        e = hdr[16 + 32 * i:48 + 32 * i]
        if len(e) == 32 and e[:16] == _META:
            out['meta_offset'] = struct.unpack('<Q', e[16:24])[0]
            break
    mo = out['meta_offset']
    if mo is None:
        return out
    meta = data[mo:mo + 65536]
    if len(meta) < 32 or meta[:8] != b'metadata':
        return out
    mcount = struct.unpack('<H', meta[10:12])[0]
    out['meta_count'] = mcount
    if len(meta) < 32 + 32 * mcount or mcount >= 2048:
        return out
    for i in range(mcount):
        e = meta[32 + 32 * i:64 + 32 * i]
        if e[:16] == _VDS:
            out['item_offset'], out['item_length'] = struct.unpack('<II', e[16:24])
            break
    return out


def f2_vhdx_backward(data):
    """A VHDX table points at a region that starts before the last byte of the
    structure naming it: whether it can still be captured depends on the chunk
    in which that structure completed."""
    p = vhdx_pointers(data)
    if p['meta_offset'] is not None and p['meta_offset'] < 0x3FFFF:
        return True
    if (p['item_offset'] is not None and
            p['item_offset'] < 32 + 32 * p['meta_count'] - 1):
        return True
    return False


def vmdk_header(data):
    if len(data) < 64 or data[:4] != b'KDMV':
        return None
    (sig, ver, _flags, sectors, _grain, desc_sec, desc_num, _n, _rgd,
     gd) = struct.unpack('<4sIIQQQQIQQ', data[:64])
    return {'ver': ver, 'sectors': sectors, 'desc_sec': desc_sec,
            'desc_num': desc_num, 'gd': gd}


def f3_vmdk_short_footer(data):
    """GD_AT_END footer region is created when the header completes and only
    sees the stream from that chunk on: for 1536 <= len < 1599 it is complete
    under some chunkings only."""
    h = vmdk_header(data)
    return bool(h and h['ver'] in (1, 2, 3) and
                h['gd'] == 0xffffffffffffffff and
                1536 <= len(data) < 1599)


def vhdx_raises(data):
    """Reference: does the VHDX table walk hit one of its format errors?"""
    if len(data) < 256 * 1024:
        return False
    hdr = data[192 * 1024:256 * 1024]
    sig, _ck, count, _r = struct.unpack('<4sIII', hdr[:16])
    if sig != b'regi' or count >= 2048:
        return True
    p = vhdx_pointers(data)
    mo = p['meta_offset']
    if mo is None:
        return False
    meta = data[mo:mo + 65536]
    return len(meta) >= 32 and meta[:8] != b'metadata'


def vmdk_raises(data):
    h = vmdk_header(data)
    return bool(h and (h['ver'] not in (1, 2, 3) or h['desc_sec'] * 512 != 0x200))


def f6_errored_still_consulted(data):
    """InspectWrapper keeps consulting an inspector that raised while
    streaming: its state is frozen at the failing chunk, so what `format`
    hands out (complete / safety outcome) depends on where that chunk ended."""
    return ((data[:8] == b'vhdxfile' and vhdx_raises(data)) or
            (data[:4] == b'KDMV' and vmdk_raises(data)))


def c01_signatures(data, system_name):
    """Keys of the findings whose signature holds for this stream under this
    system ('wrapper' or an inspector name)."""
    sigs = []
    if system_name in ('vmdk', 'wrapper'):
        if f1_vmdk_text(data):
            sigs.append('F1-vmdk-text-descriptor')
        if f3_vmdk_short_footer(data):
            sigs.append('F3-vmdk-short-footer')
    if system_name in ('vhdx', 'wrapper'):
        if f2_vhdx_backward(data):
            sigs.append('F2-vhdx-backward-pointer')
    if system_name == 'wrapper' and f6_errored_still_consulted(data):
        sigs.append('F6-errored-inspector-consulted')
    return sigs
