"""Result collection shared by all checks.

A check reports disagreements through Report.fail(); the report decides whether
it is a listed known finding (signature key active in known_findings.txt) or a
violation. Counters are plain integers incremented by the explorers; partial
reports produced in worker processes are merged with Report.merge().
"""
import collections
import hashlib
import json

MAX_VIOLATION_CLASSES = 20
MAX_SAMPLES = 8


def jsonable(x):
    if isinstance(x, (bytes, bytearray)):
        b = bytes(x)
        if len(b) > 96:
            return {'bytes_hex_head': b[:64].hex(), 'len': len(b),
                    'sha1': hashlib.sha1(b).hexdigest()}
        return {'bytes_hex': b.hex()}
    if isinstance(x, dict):
        return {str(k): jsonable(v) for k, v in x.items()}
    if isinstance(x, (list, tuple)):
        return [jsonable(v) for v in x]
    if isinstance(x, (set, frozenset)):
        return sorted((jsonable(v) for v in x), key=repr)
    if isinstance(x, (str, int, bool)) or x is None:
        return x
    if isinstance(x, float):
        if x != x or x in (float('inf'), float('-inf')):
            return repr(x)
        return x
    return repr(x)


class Report:
    def __init__(self, prop, active_known=None):
        self.prop = prop
        self.active = dict(active_known or {})   # key -> text
        self.counters = collections.Counter()
        self.violations = {}      # class key -> dict(summary, payload, count)
        self.known_hits = collections.Counter()   # finding key -> count
        self.known_examples = {}
        self.samples = []
        self.distinct = set()     # hashes of distinct non-trivial cases
        self.notes = {}
        self.caps_hit = []

    # -- counting -----------------------------------------------------------
    def count(self, name, n=1):
        self.counters[name] += n

    def nontrivial(self, key):
        """Record one distinct non-trivial case (deduplicated by key)."""
        if not isinstance(key, (bytes, str)):
            key = repr(key)
        if isinstance(key, str):
            key = key.encode('utf-8', 'backslashreplace')
        self.distinct.add(hashlib.blake2b(key, digest_size=8).digest())

    def sample(self, s):
        if len(self.samples) < MAX_SAMPLES:
            self.samples.append(jsonable(s))

    # -- disagreements ------------------------------------------------------
    def fail(self, cls, summary, payload, sigs=()):
        """A disagreement between implementation and oracle.

        cls      violation class (deduplication key; first one wins = shortest
                 in BFS / simplest-first order)
        payload  JSON-able replay recipe (see each check's replay())
        sigs     keys of known-finding signatures that hold for this *input*
        """
        for k in sigs:
            if k in self.active:
                self.known_hits[k] += 1
                self.known_examples.setdefault(k, jsonable(summary))
                return 'known'
        v = self.violations.get(cls)
        if v is None:
            if len(self.violations) >= MAX_VIOLATION_CLASSES:
                self.counters['violations_beyond_cap'] += 1
                return 'violation'
            pl = jsonable(payload)
            cur = getattr(self, 'current_case', None)
            if cur is not None and isinstance(pl, dict):
                pl['_engine_c'] = list(cur)
            self.violations[cls] = {'summary': summary, 'payload': pl, 'count': 1}
        else:
            v['count'] += 1
        return 'violation'

    # -- merging ------------------------------------------------------------
    def export(self):
        return {'counters': dict(self.counters), 'violations': self.violations,
                'known_hits': dict(self.known_hits),
                'known_examples': self.known_examples,
                'samples': self.samples, 'distinct': self.distinct,
                'notes': self.notes, 'caps_hit': self.caps_hit}

    def merge(self, other):
        if isinstance(other, Report):
            other = other.export()
        self.counters.update(other['counters'])
        for k, v in other['violations'].items():
            mine = self.violations.get(k)
            if mine is None:
                if len(self.violations) < MAX_VIOLATION_CLASSES:
                    self.violations[k] = v
                else:
                    self.counters['violations_beyond_cap'] += v['count']
            else:
                mine['count'] += v['count']
        for k, n in other['known_hits'].items():
            self.known_hits[k] += n
        for k, v in other['known_examples'].items():
            self.known_examples.setdefault(k, v)
        for s in other['samples']:
            if len(self.samples) < MAX_SAMPLES:
                self.samples.append(s)
        self.distinct |= other['distinct']
        for k, v in other['notes'].items():
            self.notes.setdefault(k, v)
        self.caps_hit.extend(other['caps_hit'])

    def n_violations(self):
        return sum(v['count'] for v in self.violations.values()) + \
            self.counters.get('violations_beyond_cap', 0)


def digest(obj):
    return hashlib.sha1(json.dumps(jsonable(obj), sort_keys=True)
                        .encode()).hexdigest()[:12]
