"""Entry point: ./vcheck <Cxx> [--tier quick|thorough] | --replay <file> | --selftest | --list

Exit codes: 0 property held on everything explored (KNOWN-FINDING lines allowed)
            1 violation(s) not listed in known_findings.txt (VIOLATION lines)
            2 the harness itself is broken (never a property verdict)
"""
import argparse
import importlib
import json
import os
import sys
import time
import traceback

HERE = os.path.dirname(os.path.dirname(os.path.abspath(__file__)))
EVIDENCE_DIR = os.path.join(HERE, 'evidence')
REPLAY_DIR = os.path.join(HERE, 'replays')


class Ctx:
    def __init__(self, prop, tier, seed, known):
        self.prop = prop
        self.tier = tier
        self.seed = seed
        self.known = known          # key -> text (active known findings)
        self.thorough = tier == 'thorough'

    def new_report(self):
        from vlib.report import Report
        return Report(self.prop, self.known)


def _load_check(prop):
    return importlib.import_module('vlib.checks.%s' % prop.lower())


def _harness_error(msg):
    sys.stdout.flush()
    print('HARNESS-ERROR: %s' % msg, file=sys.stderr)
    sys.exit(2)


def run_check(prop, tier, seed):
    from vlib import known, repo
    from vlib.report import digest, jsonable
    t0 = time.time()
    repo.bind()
    mod = _load_check(prop)
    ctx = Ctx(prop, tier, seed, known.load().get(prop, {}))
    rep = mod.run(ctx)
    wall = time.time() - t0

    # ---- violations: replay twice, write artefacts --------------------------
    os.makedirs(REPLAY_DIR, exist_ok=True)
    lines = []
    not_reproduced = []
    # Engine C: re-run every failing case together with its predecessors in the
    # product order *before* any isolated replay touches the process state (an
    # isolated call can itself warm a cache the right way round)
    history = {}
    for cls, v in rep.violations.items():
        eng = v['payload'].get('_engine_c') if isinstance(v['payload'], dict) else None
        if eng:
            from vlib.mc import enum as _enum
            history[cls] = _enum.rerun(eng[0], eng[1], back=64)
    for cls, v in rep.violations.items():
        art = {'property': prop, 'class': cls, 'summary': jsonable(v['summary']),
               'count': v['count'], 'payload': v['payload'],
               'tier': tier, 'seed': seed, 'repo': repo.git_info()}
        if hasattr(mod, 'replay') and not (isinstance(v['payload'], dict) and
                                           'case_raised' in v['payload']):
            try:
                o1 = jsonable(mod.replay(v['payload']))
                o2 = jsonable(mod.replay(v['payload']))
            except Exception:
                _harness_error('replay of %s/%s raised:\n%s'
                               % (prop, cls, traceback.format_exc()))
            # The same history must fail every time. Details may legitimately
            # differ between two replays when the code under test iterates a set
            # of objects hashed by id (InspectWrapper does); that is recorded,
            # only a disagreement on the verdict itself is a harness error.
            if bool(o1.get('violates', True)) != bool(o2.get('violates', True)):
                _harness_error('replay divergence for %s/%s: %r vs %r'
                               % (prop, cls, o1, o2))
            ign = set(o1.get('_ignore_in_divergence_check', [])) | \
                set(o2.get('_ignore_in_divergence_check', []))
            if ({k: v for k, v in o1.items() if k not in ign} !=
                    {k: v for k, v in o2.items() if k not in ign}):
                art['replay_details_differ_between_runs'] = True
                art['observed_second_replay'] = o2
            if not o1.get('violates', True):
                # Engine C: the answer may depend on the calls that preceded it
                # in the worker (a cache keyed too coarsely ...): re-run the
                # case together with its predecessors in the product order
                again = again2 = history.get(cls)
                if again and again2:
                    o1 = {'violates': True, 'history_dependent': True,
                          'note': 'reproduces only after the preceding cases of the product '
                                  '(the answer depends on earlier calls)',
                          'problems': jsonable(again)}
                else:
                    not_reproduced.append((cls, o1))
                    continue
            art['observed'] = o1
        path = os.path.join(REPLAY_DIR, '%s-%s.json' % (prop, digest([cls, v['payload']])))
        with open(path, 'w') as f:
            json.dump(art, f, indent=1, sort_keys=True)
        lines.append((cls, v, path))
    # A disagreement seen during exploration that a plain replay on fresh
    # objects does not show is never reported as a violation. If nothing at all
    # reproduces the harness itself is suspect (exit 2); otherwise the
    # reproducible classes are reported and the others are listed as notes.
    if not_reproduced and not lines:
        _harness_error('violation %s/%s did not reproduce in a fresh replay: %r'
                       % (prop, not_reproduced[0][0], not_reproduced[0][1]))
    for cls, o1 in not_reproduced:
        rep.violations.pop(cls, None)
        print('NOTE: class %s was seen during exploration but did not reproduce '
              'in a fresh replay; not reported' % cls)

    # ---- evidence ------------------------------------------------------------
    c = rep.counters
    cov = {
        'evaluations': int(c.get('evaluations', 0)),
        'distinct_nontrivial': len(rep.distinct),
        'rule': rep.notes.get('rule', ''),
        'samples': rep.samples,
        'exhaustive': not rep.caps_hit,
        'caps_hit': rep.caps_hit,
        'bounds': rep.notes.get('bounds', {}),
        'counters': {k: int(v) for k, v in sorted(c.items())},
        'known_finding_hits': dict(rep.known_hits),
        'known_finding_examples': rep.known_examples,
        'violation_classes': {k: {'summary': jsonable(v['summary']),
                                  'count': v['count']}
                              for k, v in rep.violations.items()},
        'repo': repo.git_info(),
        'technique': getattr(mod, 'TECHNIQUE', ''),
    }
    for k in ('states', 'transitions', 'traces_validated_against_impl',
              'programs'):
        if k in c:
            cov[k] = int(c[k])
    for k, v in rep.notes.items():
        if k not in ('rule', 'bounds', 'assumptions'):
            cov[k] = jsonable(v)
    ev = {'property_id': prop, 'tier': tier, 'seed': seed,
          'level': mod.LEVEL, 'coverage': cov,
          'assumptions': rep.notes.get('assumptions', []),
          'wall_s': round(wall, 3), 'violations': rep.n_violations()}
    # runs against a scratch copy (mutation demos) must not overwrite the
    # evidence of /repo
    evdir = EVIDENCE_DIR
    if repo.root() != os.path.realpath('/repo'):
        evdir = os.environ.get('VERIF_SCRATCH_EVIDENCE',
                               os.path.join(REPLAY_DIR, 'scratch-evidence'))
    os.makedirs(evdir, exist_ok=True)
    tmp = os.path.join(evdir, '.%s.json.tmp' % prop)
    with open(tmp, 'w') as f:
        json.dump(ev, f, indent=1, sort_keys=True)
    os.replace(tmp, os.path.join(evdir, '%s.json' % prop))

    # ---- output contract -----------------------------------------------------
    for key, n in sorted(rep.known_hits.items()):
        print('KNOWN-FINDING: property=%s %s [key=%s, %d case(s) in this run]'
              % (prop, ctx.known.get(key, ''), key, n))
    for key in sorted(set(ctx.known) - set(rep.known_hits)):
        print('NOTE: listed finding %s of %s was not reproduced by this run'
              % (key, prop))
    summ = ' '.join('%s=%d' % (k, cov[k]) for k in
                    ('states', 'transitions', 'traces_validated_against_impl',
                     'evaluations', 'distinct_nontrivial') if k in cov)
    print('%s tier=%s seed=%d %s wall=%.1fs exhaustive=%s'
          % (prop, tier, seed, summ, wall, cov['exhaustive']))
    if lines:
        for cls, v, path in lines:
            print('  class %s x%d: %s' % (cls, v['count'],
                                          json.dumps(jsonable(v['summary']))[:400]))
            print('VIOLATION property=%s replay=%s' % (prop, path))
        sys.stdout.flush()
        return 1
    return 0


def run_replay(path):
    from vlib import repo
    repo.bind()
    with open(path) as f:
        art = json.load(f)
    mod = _load_check(art['property'])
    obs = mod.replay(art['payload'])
    from vlib.report import jsonable
    print(json.dumps(jsonable(obs), indent=1, sort_keys=True))
    return 1 if obs.get('violates', True) else 0


def main(argv=None):
    ap = argparse.ArgumentParser(prog='vcheck')
    ap.add_argument('prop', nargs='?')
    ap.add_argument('--tier', default=os.environ.get('VERIF_TIER') or 'quick',
                    choices=['quick', 'thorough'])
    ap.add_argument('--replay')
    ap.add_argument('--selftest', action='store_true')
    ap.add_argument('--list', action='store_true')
    a = ap.parse_args(argv)
    try:
        seed = int(os.environ.get('VERIF_SEED', '0') or 0)
    except ValueError:
        seed = 0
    try:
        if a.replay:
            return run_replay(a.replay)
        if a.selftest:
            from vlib import selftest
            return selftest.main()
        if a.list:
            d = os.path.join(HERE, 'vlib', 'checks')
            print(' '.join(sorted(f[:-3].upper() for f in os.listdir(d)
                                  if f.startswith('c') and f.endswith('.py'))))
            return 0
        if not a.prop:
            ap.error('property id required')
        return run_check(a.prop.upper(), a.tier, seed)
    except SystemExit:
        raise
    except Exception:
        _harness_error(traceback.format_exc())


if __name__ == '__main__':
    sys.exit(main())
