"""./vcheck --selftest : checks of the machinery itself (not of any property).

1. The fast structural clone used by Engine A is equivalent to copy.deepcopy:
   on a family of streams, every transition is executed on a clone and on a
   deep copy and the canonical forms must agree (inspectors and wrapper).
2. Determinism: the same path replayed twice on fresh objects gives the same
   canonical states (no hidden nondeterminism in the harness).
3. MANIFEST.json and every evidence file validate against the schemas
   (delegated to tools/validate.py under python3-vt, which has jsonschema).
Exit 0 if all hold, 2 otherwise.
"""
import copy
import os
import subprocess
import sys

HERE = os.path.dirname(os.path.dirname(os.path.abspath(__file__)))


def clone_equivalence():
    from vlib import repo
    repo.bind()
    from vlib.img import family as F
    from vlib.mc import stream as S
    n = 0
    imgs = F.wellformed(0, False) + F.polyglots(0)[:3] + F.unstructured(0)[:12]
    for im in imgs:
        data = im.data
        L = len(data)
        cuts = sorted({c for c in (1, 4, 63, 64, 65, 511, 512, 513, 592, L // 2, L - 1)
                       if 0 < c < L}) + [L]
        for sysname in ['raw', 'qcow2', 'vhd', 'vhdx', 'vmdk', 'vdi', 'qed', 'iso', 'gpt',
                        'luks', 'wrapper']:
            system = S.WrapperSystem() if sysname == 'wrapper' else S.InspectorSystem(sysname)
            a = system.new(data)
            b = system.new(data)
            if sysname == 'wrapper':
                b._inspectors = S.DetSet(b._inspectors)
            p = 0
            for q in cuts:
                a2 = system.clone(a)
                b2 = copy.deepcopy(b)
                ea = eb = None
                try:
                    system.feed(a2, data, p, q)
                except Exception as e:
                    ea = type(e).__name__
                try:
                    system.feed(b2, data, p, q)
                except Exception as e:
                    eb = type(e).__name__
                n += 1
                if ea != eb or system.canon(a2) != system.canon(b2):
                    print('SELFTEST-FAIL clone != deepcopy: %s / %s at %d..%d' % (im.name, sysname, p, q))
                    return False
                # the original must be untouched by what happened to the clone
                if system.canon(a) != system.canon(b):
                    print('SELFTEST-FAIL clone aliased its original: %s / %s' % (im.name, sysname))
                    return False
                if ea:
                    break
                a, b, p = a2, b2, q
    print('selftest: clone == deepcopy on %d transitions' % n)
    return True


def determinism():
    from vlib.img import family as F
    from vlib.mc import stream as S
    n = 0
    for im in F.wellformed(0, False)[3:12]:
        for sysname in ('vmdk', 'vhdx', 'wrapper'):
            system = S.WrapperSystem() if sysname == 'wrapper' else S.InspectorSystem(sysname)
            L = len(im.data)
            path = [c for c in (5, 64, 600, L // 2) if c < L] + [L, 'e', 'finish']
            o1, t1 = S.replay_path(system, im.data, path)
            o2, t2 = S.replay_path(system, im.data, path)
            n += 1
            if repr(t1) != repr(t2) or system.canon(o1) != system.canon(o2):
                print('SELFTEST-FAIL nondeterministic replay: %s / %s' % (im.name, sysname))
                return False
    print('selftest: %d paths replayed twice with identical observations' % n)
    return True


def schemas():
    r = subprocess.run(['python3-vt', os.path.join(HERE, 'tools', 'validate.py')],
                       capture_output=True, text=True)
    sys.stdout.write(r.stdout[-1500:])
    return r.returncode == 0


def main():
    ok = clone_equivalence() and determinism() and schemas()
    print('selftest: %s' % ('ok' if ok else 'FAILED'))
    return 0 if ok else 2
