"""Binding to the tree under test.

The checks import oslo_utils from the *current working tree* of the repository
(default /repo, redirected with OSLO_UTILS_VERIF_REPO for scratch copies).
There is no build step: the tree is put first on sys.path and the import is
verified to come from it.
"""
import os
import subprocess
import sys

GUARD = 'OSLO_UTILS_VERIF'

_ROOT = None


def root():
    return os.path.realpath(os.environ.get('OSLO_UTILS_VERIF_REPO', '/repo'))


def bind():
    """Make `import oslo_utils` resolve to the tree under test. Idempotent."""
    global _ROOT
    if _ROOT is not None:
        return _ROOT
    r = root()
    if not os.path.isdir(os.path.join(r, 'oslo_utils')):
        raise SystemExit('harness error: no oslo_utils package under %s' % r)
    os.environ.setdefault(GUARD, '1')
    sys.dont_write_bytecode = True
    sys.path.insert(0, r)
    for name in [m for m in sys.modules if m == 'oslo_utils' or
                 m.startswith('oslo_utils.')]:
        del sys.modules[name]
    import oslo_utils
    got = os.path.realpath(oslo_utils.__file__)
    if not got.startswith(r + os.sep):
        raise SystemExit('harness error: oslo_utils imported from %s, not %s'
                         % (got, r))
    _ROOT = r
    return r


def git_info():
    r = root()
    try:
        head = subprocess.run(['git', '-C', r, 'rev-parse', 'HEAD'],
                              capture_output=True, text=True,
                              timeout=20).stdout.strip()
        dirty = bool(subprocess.run(
            ['git', '-C', r, 'status', '--porcelain', '--untracked-files=no'],
            capture_output=True, text=True, timeout=20).stdout.strip())
    except Exception:
        head, dirty = 'unknown', None
    return {'root': r, 'head': head, 'dirty': dirty}
