"""Image families: well-formed, field-mutated, truncated, extended, polyglot and
unstructured streams derived from the layout builders."""
import struct

from vlib.img import build as B


def wellformed(seed=0, full=False):
    """One or more clean images per format."""
    out = [
        B.raw('zeros', 1024), B.raw('random', 1500, seed), B.raw('text', 1200),
        B.qcow2(version=3, length=1024), B.qcow2(version=2, length=600, size=12345),
        B.qed(), B.vhd(size=(1 << 33) + 512), B.vdi(size=3 << 30),
        B.vhdx(size=10 << 30),
        B.vhdx(size=777, pad_regions_before=2, pad_items_before=3,
               item_offset=65536 + 8),
        B.vmdk(capacity_sectors=4096, desc_num=2),
        B.vmdk(capacity_sectors=4096, desc_num=2, footer='good',
               ctype='streamOptimized'),
        B.vmdk_text(),
        B.iso(blocks=1234), B.iso(blocks=77, ident=b'NSR02', block_size=512),
        B.mbr([B.PTE_GPT]), B.mbr([B.PTE_LINUX, B.PTE_NTFS]),
        B.luks(version=1, payload_sectors=8, length=8192),
    ]
    if full:
        out += [
            B.vhdx(size=1 << 40, meta_offset=1 << 20, item_offset=1 << 16),
            B.vhdx(size=5, pad_regions_before=7, pad_items_before=20),
            B.vmdk(capacity_sectors=1 << 20, desc_num=20),
            B.vmdk(capacity_sectors=9, desc_num=1, version=3),
            B.luks(version=1, payload_sectors=0, length=2000),
            B.iso(blocks=1, block_size=4096, length=B.ISO_END),
        ]
    return out


def field_mutations(img, seed=0, max_span=16, limit=None):
    """Every span between adjacent layout boundaries (<= max_span bytes) set to
    all-zero, all-ones, 0x01.. and seed bytes."""
    out = []
    bs = [b for b in img.bounds if b <= len(img.data)]
    spans = [(a, b) for a, b in zip(bs, bs[1:]) if 0 < b - a <= max_span]
    if bs and 0 < bs[0] <= max_span:
        spans.insert(0, (0, bs[0]))
    for a, b in spans:
        for tag, fill in (('00', b'\x00' * (b - a)), ('ff', b'\xff' * (b - a)),
                          ('01', b'\x01' + b'\x00' * (b - a - 1)),
                          ('sd', B.filler(seed, b - a, a))):
            if img.data[a:b] == fill:
                continue
            d = img.data[:a] + fill + img.data[b:]
            out.append(img.derive(d, '%s~%d:%d=%s' % (img.name, a, b, tag),
                                  clean=False, wellformed=False, unsafe=set(),
                                  size=None))
    return out[:limit] if limit else out


def truncations(img, around=True):
    out = []
    seen = set()
    for b in img.bounds:
        for t in ((b - 1, b, b + 1) if around else (b,)):
            if 0 <= t < len(img.data) and t not in seen:
                seen.add(t)
                out.append(img.derive(img.data[:t], '%s|%d' % (img.name, t),
                                      clean=False, wellformed=False,
                                      size=None))
    return out


def extensions(img, seed=0):
    out = []
    for n in (1, 512, 4096):
        out.append(img.derive(img.data + B.filler(seed, n, n),
                              '%s+%d' % (img.name, n)))
    return out


def overlay(base, *parts):
    d = bytearray(base)
    for off, blob in parts:
        if len(d) < off + len(blob):
            d += bytes(off + len(blob) - len(d))
        d[off:off + len(blob)] = blob
    return bytes(d)


def polyglots(seed=0):
    """Streams carrying the signatures of two formats at once."""
    out = []
    iso = B.iso(blocks=100)
    q = B.qcow2(length=512).data
    m = B.mbr([B.PTE_LINUX]).data[:512]
    lk = B.luks(length=592).data
    vm = B.vmdk(desc_num=1, grain_fill=0).data
    vd = B.vdi(length=512).data
    vh = B.vhd(length=512).data

    def mk(name, data):
        return B.Image('poly', data, name='poly-' + name,
                       bounds=[64, 512, 592, 1024, B.ISO_PVD, B.ISO_END])
    out.append(mk('iso+qcow2', overlay(iso.data, (0, q))))
    out.append(mk('iso+mbr', overlay(iso.data, (0, m))))
    out.append(mk('iso+luks', overlay(iso.data, (0, lk))))
    out.append(mk('iso+vmdk', overlay(iso.data, (0, vm))))
    out.append(mk('iso+vdi+mbr', overlay(iso.data, (0, vd), (446, m[446:512]))))
    out.append(mk('vhd+mbr', overlay(bytes(1024), (0, vh), (446, m[446:512]))))
    out.append(mk('qcow2+vdi', overlay(bytes(1024), (0, vd), (0, q[:64]))))
    out.append(mk('qcow2+mbr', overlay(bytes(1024), (0, q), (446, m[446:512]))))
    out.append(mk('luks+mbr', overlay(bytes(1024), (0, lk), (446, m[446:512]))))
    out.append(mk('qed+mbr', overlay(bytes(1024), (0, B.qed().data[:64]),
                                     (446, m[446:512]))))
    return out


def unstructured(seed=0):
    out = []
    for n in (0, 1, 3, 4, 5, 63, 64, 65, 511, 512, 513, 600, 2000):
        out.append(B.raw('zeros', n))
        out.append(B.raw('text', n))
        if n >= 8:
            out.append(B.raw('random', n, seed))
    t = B.raw('text', 1400).data
    for at in (10, 63, 64, 100, 511, 512, 600):
        d = t[:at] + b'\xe9' + t[at + 1:]
        out.append(B.Image('raw', d, name='text-nonascii@%d' % at,
                           bounds=[64, 512, at]))
    return out
