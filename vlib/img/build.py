"""Layout builders: the reference model of each image format.

Written from the format descriptions (the comments in format_inspector.py and
the qemu / vendor documents they cite), not from the parser code. Every builder
returns an Image: the bytes plus *facts* the oracles use - which signature was
put where, which size was declared and where the structure carrying it ends,
which unsafe traits were built in, and every structure boundary created (cut
candidates for the stream explorer).
"""
import struct
import uuid


class Image:
    def __init__(self, fmt, data, **facts):
        self.fmt = fmt                  # format whose layout was used
        self.data = bytes(data)
        self.size = facts.pop('size', None)          # declared virtual size
        self.size_end = facts.pop('size_end', None)  # end offset of the structure carrying the size
        self.bounds = sorted(set(facts.pop('bounds', [])))
        self.unsafe = set(facts.pop('unsafe', ()))   # names of unsafe traits
        self.clean = facts.pop('clean', False)       # must be accepted
        self.wellformed = facts.pop('wellformed', False)
        self.name = facts.pop('name', fmt)
        self.facts = facts

    def derive(self, data, name, **over):
        im = Image(self.fmt, data, size=self.size, size_end=self.size_end,
                   bounds=self.bounds, unsafe=self.unsafe, clean=self.clean,
                   wellformed=self.wellformed, name=name, **dict(self.facts))
        for k, v in over.items():
            setattr(im, k, v)
        return im

    def __repr__(self):
        return '<Image %s len=%d>' % (self.name, len(self.data))


def filler(seed, n, salt=0):
    """Deterministic don't-care bytes (never all-zero for n >= 8)."""
    out = bytearray()
    x = (seed * 0x9E3779B97F4A7C15 + salt * 0xBF58476D1CE4E5B9 + 0x94D049BB133111EB) & (2 ** 64 - 1)
    while len(out) < n:
        x ^= x >> 30
        x = (x * 0xBF58476D1CE4E5B9) & (2 ** 64 - 1)
        x ^= x >> 27
        x = (x * 0x94D049BB133111EB) & (2 ** 64 - 1)
        x ^= x >> 31
        out += struct.pack('<Q', x)
    return bytes(out[:n])


def pad_to(buf, n, fill=b'\x00'):
    if len(buf) < n:
        buf += fill * (n - len(buf))
    return buf


# ---------------------------------------------------------------------------
# raw / unstructured

def raw(kind='zeros', length=1024, seed=0):
    if kind == 'zeros':
        d = bytes(length)
    elif kind == 'random':
        d = filler(seed, length, 77)
        # keep it from looking like anything by accident
        d = b'\x01\x02\x03\x04' + d[4:]
    elif kind == 'text':
        line = b'The quick brown fox jumps over the lazy dog 0123456789.\n'
        d = (line * (length // len(line) + 1))[:length]
    else:
        raise ValueError(kind)
    return Image('raw', d, size=length, size_end=None, name='raw-%s-%d' % (kind, length),
                 clean=True, wellformed=True, bounds=[64, 512])


# ---------------------------------------------------------------------------
# qcow2  (docs/interop/qcow2.txt)

QCOW_KNOWN_BITS = (0, 1, 2, 3)       # bit 2 = external data file (unsafe)


def qcow2(size=1 << 30, version=3, backing_offset=0, backing_size=0,
          features=0, cluster_bits=16, length=1024, seed=0, fill_irrelevant=False):
    h = bytearray(filler(seed, 512, 1) if fill_irrelevant else bytes(512))
    # v2 header, 72 bytes
    struct.pack_into('>4sIQIIQIIQQIIQ', h, 0,
                     b'QFI\xfb', version & 0xffffffff, backing_offset,
                     backing_size, cluster_bits, size,
                     0,                # crypt_method
                     1,                # l1_size
                     0x30000,          # l1_table_offset
                     0x10000,          # refcount_table_offset
                     1,                # refcount_table_clusters
                     0,                # nb_snapshots
                     0)                # snapshots_offset
    # v3 additions: incompatible, compatible, autoclear features, refcount
    # order, header length
    struct.pack_into('>QQQII', h, 72, features, 0, 0, 4, 104)
    data = pad_to(bytes(h), length) if length >= 512 else bytes(h)[:length]
    if fill_irrelevant and length > 512:
        data = data[:512] + filler(seed, length - 512, 2)
    unsafe = set()
    if backing_offset != 0:
        unsafe.add('backing_file')
    if version not in (2, 3):
        unsafe.add('version')
    if version == 3:
        if features & (1 << 2):
            unsafe.add('data_file')
        if features >> 4:
            unsafe.add('unknown_feature')
    # for version 2 the feature words do not exist: the bytes carry no meaning
    clean = (not unsafe and length >= 512 and
             (version == 2 and features == 0 or version == 3 and features == 0))
    return Image('qcow2', data[:length], size=size, size_end=512,
                 bounds=[4, 8, 16, 24, 32, 72, 80, 104, 512],
                 unsafe=unsafe, clean=clean, wellformed=length >= 512,
                 name='qcow2-v%d' % version, features=features,
                 version=version, backing_offset=backing_offset)


# ---------------------------------------------------------------------------
# QED

def qed(length=1024, seed=0):
    h = bytearray(512)
    struct.pack_into('<4sIIIQQQQQ', h, 0, b'QED\x00', 65536, 4, 1, 0, 0, 65536,
                     131072, 1 << 30)
    return Image('qed', pad_to(bytes(h), length)[:length], size=None,
                 bounds=[4, 512], unsafe={'qed'}, wellformed=length >= 512,
                 name='qed')


# ---------------------------------------------------------------------------
# VHD (block/vpc.c): 512-byte footer copy at offset 0

def vhd(size=1 << 30, length=1024, seed=0):
    h = bytearray(512)
    h[0:8] = b'conectix'
    struct.pack_into('>II', h, 8, 2, 0x00010000)
    struct.pack_into('>Q', h, 16, 512)          # data offset
    h[28:32] = b'qem2'
    struct.pack_into('>Q', h, 40, size)         # original size
    struct.pack_into('>Q', h, 48, size)         # current size
    struct.pack_into('>I', h, 60, 3)            # dynamic
    return Image('vhd', pad_to(bytes(h), length)[:length], size=size,
                 size_end=512, bounds=[8, 40, 48, 512], clean=length >= 512,
                 wellformed=length >= 512, name='vhd')


# ---------------------------------------------------------------------------
# VHDX (MS-VHDX)

GUID_META_REGION = uuid.UUID('8B7CA206-4790-4B9A-B8FE-575F050F886E')
GUID_BAT_REGION = uuid.UUID('2DC27766-F623-4200-9D64-115E9BFD4A08')
GUID_VDS = uuid.UUID('2FA54224-CD1B-4876-B211-5DBED83BF4B8')
GUID_FILE_PARAMS = uuid.UUID('CAA16737-FA36-4D43-B3B6-33F0AA44E76B')
GUID_LSS = uuid.UUID('8141BF1D-A96F-4709-BA47-F233A8FAAB5F')
GUID_PAD = uuid.UUID('11111111-2222-3333-4444-555555555555')

VHDX_HEADER = 192 * 1024
VHDX_HEADER_END = 256 * 1024


def vhdx(size=1 << 30, meta_offset=VHDX_HEADER_END, item_offset=65536,
         pad_regions_before=0, pad_regions_after=1, pad_items_before=0,
         pad_items_after=1, item_length=8, region_count=None,
         meta_count=None, region_sig=b'regi', meta_sig=b'metadata',
         meta_len_field=1 << 20, tail=64, ident=b'vhdxfile', seed=0,
         with_meta_entry=True, with_vds_entry=True, vds_flags=0):
    bounds = [8, 32, VHDX_HEADER, VHDX_HEADER + 16, VHDX_HEADER_END]
    total = max(meta_offset + item_offset + max(8, min(item_length, 65536)) + tail,
                meta_offset + 32 + 32 * (pad_items_before + pad_items_after + 1) + tail,
                VHDX_HEADER_END + tail)
    if total > (16 << 20):          # pointer far beyond any stream we build
        total = VHDX_HEADER_END + tail
    buf = bytearray(total)
    buf[0:8] = ident
    creator = 'verif'.encode('utf-16-le')
    buf[8:8 + len(creator)] = creator
    # two headers at 64K / 128K (not read by the inspector)
    for off in (64 * 1024, 128 * 1024):
        buf[off:off + 4] = b'head'
    # region table
    entries = []
    for _ in range(pad_regions_before):
        entries.append((GUID_PAD, 3 << 20, 1 << 20, 0))
    if with_meta_entry:
        entries.append((GUID_META_REGION, meta_offset, meta_len_field, 1))
    for i in range(pad_regions_after):
        entries.append((GUID_BAT_REGION if i == 0 else GUID_PAD, 3 << 20, 1 << 20, 1))
    count = len(entries) if region_count is None else region_count
    struct.pack_into('<4sIII', buf, VHDX_HEADER, region_sig, 0, count & 0xffffffff, 0)
    for i, (g, off, ln, req) in enumerate(entries):
        p = VHDX_HEADER + 16 + 32 * i
        if p + 32 > VHDX_HEADER_END:
            break
        buf[p:p + 16] = g.bytes_le
        struct.pack_into('<QII', buf, p + 16, off, ln, req)
        bounds += [p, p + 16, p + 32]
    # metadata region
    items = []
    for _ in range(pad_items_before):
        items.append((GUID_PAD, 0x20000, 4))
    if with_vds_entry:
        items.append((GUID_VDS, item_offset, item_length))
    for i in range(pad_items_after):
        items.append((GUID_LSS if i == 0 else GUID_PAD, 0x20010, 4))
    mcount = len(items) if meta_count is None else meta_count
    if meta_offset + 32 <= total:
        struct.pack_into('<8sHH', buf, meta_offset, meta_sig, 0, mcount & 0xffff)
    for i, (g, off, ln) in enumerate(items):
        p = meta_offset + 32 + 32 * i
        if p + 32 > total:
            break
        buf[p:p + 16] = g.bytes_le
        struct.pack_into('<III', buf, p + 16, off & 0xffffffff, ln & 0xffffffff,
                         (vds_flags & 0xffffffff) if g == GUID_VDS else 0)
        bounds += [p, p + 16, p + 20, p + 24, p + 28, p + 32]
    table_end = meta_offset + 32 + 32 * len(items)
    vds_at = meta_offset + item_offset
    if vds_at + 8 <= total:
        struct.pack_into('<Q', buf, vds_at, size)
    bounds += [meta_offset, meta_offset + 12, meta_offset + 32, table_end,
               meta_offset + 65536, vds_at, vds_at + 8]
    forward = (meta_offset >= VHDX_HEADER_END - 1 and
               item_offset >= 32 + 32 * mcount - 1)
    wellformed = (ident == b'vhdxfile' and region_sig == b'regi' and
                  meta_sig == b'metadata' and with_meta_entry and
                  with_vds_entry and item_length == 8 and
                  region_count is None and meta_count is None and forward and
                  meta_offset >= VHDX_HEADER_END and item_offset >= 32 + 32 * mcount)
    return Image('vhdx', bytes(buf), size=size, size_end=vds_at + 8,
                 bounds=bounds, clean=wellformed, wellformed=wellformed,
                 name='vhdx', meta_offset=meta_offset, item_offset=item_offset,
                 meta_count=mcount, backward=not forward)


# ---------------------------------------------------------------------------
# VMDK (hosted sparse extent, VMware Virtual Disk Format 1.1)

GD_AT_END = 0xffffffffffffffff

VMDK_DESC_SKELETON = [
    '# Disk DescriptorFile',
    'version=1',
    'CID=fffffffe',
    'parentCID=ffffffff',
    'createType="%(ctype)s"',
    '',
    '# Extent description',
    'RW %(sectors)d SPARSE "disk.vmdk"',
    '',
    '# The Disk Data Base',
    '#DDB',
    '',
    'ddb.virtualHWVersion = "4"',
    'ddb.geometry.cylinders = "2"',
    'ddb.geometry.heads = "16"',
    'ddb.geometry.sectors = "63"',
    'ddb.adapterType = "ide"',
]


def vmdk_descriptor(ctype='monolithicSparse', sectors=2048, extra_lines=(),
                    ctype_line=None, extent_line=None):
    lines = []
    for ln in VMDK_DESC_SKELETON:
        if ln.startswith('createType'):
            lines.append(ctype_line if ctype_line is not None
                         else ln % {'ctype': ctype})
        elif ln.startswith('RW '):
            if extent_line is None:
                lines.append(ln % {'sectors': sectors})
            elif extent_line:
                lines.append(extent_line)
        else:
            lines.append(ln)
    lines.extend(extra_lines)
    return ('\n'.join(lines) + '\n').encode('ascii')


def vmdk_descriptor_exact(total, ctype='monolithicSparse', sectors=2048, last='ctype'):
    """A descriptor of exactly `total` bytes without a single NUL (it fills its sectors):
    last='ctype'   the createType line is the last line and has no newline,
    last='nl'      ordinary order, the last byte is a newline,
    last='comment' ordinary order, the last line is a comment without newline."""
    if last == 'ctype':
        body = vmdk_descriptor(ctype, sectors, ctype_line='# (type at the end)')
        tail = ('createType="%s"' % ctype).encode('ascii')
    elif last == 'nl':
        body, tail = vmdk_descriptor(ctype, sectors), b'# end\n'
    else:
        body, tail = vmdk_descriptor(ctype, sectors), b'# c'
    need = total - len(body) - len(tail)
    if need < 0:
        raise ValueError('descriptor does not fit %d bytes' % total)
    pad = b''
    while need > 0:
        k = min(need, 61)
        pad += b'#' * (k - 1) + b'\n'
        need -= k
    out = body + pad + tail
    assert len(out) == total and b'\x00' not in out
    return out


def vmdk_header(capacity_sectors=2048, version=1, desc_sec=1, desc_num=20,
                gd_offset=None, flags=3, sig=b'KDMV', compressed=False):
    h = bytearray(512)
    if gd_offset is None:
        gd_offset = (desc_sec + desc_num + 1)
    M = (1 << 64) - 1
    struct.pack_into('<4sIIQQQQIQQQ', h, 0, sig, version & 0xffffffff, flags,
                     capacity_sectors & M, 128, desc_sec & M, desc_num & M, 512,
                     (desc_sec + desc_num) & M, gd_offset & M,
                     (desc_sec + desc_num + 64) & M)
    h[72] = 0
    h[73:77] = b'\n \r\n'
    struct.pack_into('<H', h, 77, 1 if compressed else 0)
    return bytes(h)


def vmdk(capacity_sectors=2048, version=1, desc_sec=1, desc_num=2,
         descriptor=None, footer=None, footer_over=None, grain_fill=512,
         sig=b'KDMV', seed=0, ctype='monolithicSparse', name=None):
    """footer: None (no footer, gdOffset real) or 'good' or dict of perturbations
    (handled through footer_over = {'field': value})."""
    with_footer = footer is not None
    if descriptor is None:
        descriptor = vmdk_descriptor(ctype, capacity_sectors)
    gd = GD_AT_END if with_footer else None
    head = vmdk_header(capacity_sectors, version, desc_sec, desc_num, gd,
                       sig=sig, compressed=with_footer)
    desc_region = pad_to(descriptor, desc_num * 512)
    body = bytearray(head)
    bounds = [4, 8, 12, 20, 28, 36, 44, 56, 64, 72, 73, 77, 79, 512]
    if desc_sec * 512 > len(body):
        body += bytes(desc_sec * 512 - len(body))
    desc_at = desc_sec * 512
    # place (possibly overlapping the header when desc_sec == 0)
    if desc_at >= 512:
        body[desc_at:desc_at + len(desc_region)] = desc_region
    else:
        body += desc_region
    bounds += [desc_at, desc_at + len(descriptor), desc_at + desc_num * 512,
               desc_at + min(desc_num * 512, (1 << 20) - 1)]
    if grain_fill:
        body += filler(seed, grain_fill, 5)
    if with_footer:
        f = dict(sig=sig, version=version, desc_sec=desc_sec, desc_num=desc_num,
                 gd_offset=desc_sec + desc_num + 1, marker_val=1,
                 marker_size=0, marker_type=3, marker_pad=b'',
                 eos_val=0, eos_size=0, eos_type=0, eos_pad=b'')
        f.update(footer_over or {})
        marker = bytearray(512)
        struct.pack_into('<QII', marker, 0, f['marker_val'], f['marker_size'],
                         f['marker_type'])
        marker[16:16 + len(f['marker_pad'])] = f['marker_pad']
        fh = vmdk_header(capacity_sectors, f['version'], f['desc_sec'],
                         f['desc_num'], f['gd_offset'], sig=f['sig'],
                         compressed=True)
        eos = bytearray(512)
        struct.pack_into('<QII', eos, 0, f['eos_val'], f['eos_size'],
                         f['eos_type'])
        eos[16:16 + len(f['eos_pad'])] = f['eos_pad']
        fstart = len(body)
        body += marker + fh + eos
        bounds += [fstart, fstart + 512, fstart + 1024, fstart + 1536]
    return Image('vmdk', bytes(body), size=capacity_sectors * 512,
                 # the descriptor is at most 1 MiB - 1 bytes long (qemu's limit)
                 size_end=desc_at + min(desc_num * 512, (1 << 20) - 1), bounds=bounds,
                 name=name or ('vmdk-footer' if with_footer else 'vmdk'),
                 desc_at=desc_at, desc_num=desc_num, with_footer=with_footer)


def vmdk_text(descriptor=None, ctype='monolithicFlat', length=None, name=None):
    """Text-only descriptor file (no sparse header)."""
    if descriptor is None:
        descriptor = vmdk_descriptor(
            ctype, 2048, extent_line='RW 2048 FLAT "disk-flat.vmdk" 0')
    d = descriptor if length is None else pad_to(descriptor, length, b'\n')[:length]
    return Image('vmdk', d, size=None, bounds=[4, 64, 512],
                 name=name or 'vmdk-text', text_mode=True)


# ---------------------------------------------------------------------------
# VDI (block/vdi.c)

def vdi(size=1 << 30, length=1024, seed=0):
    h = bytearray(512)
    text = b'<<< Oracle VM VirtualBox Disk Image >>>\n'
    h[0:len(text)] = text
    struct.pack_into('<II', h, 0x40, 0xbeda107f, 0x00010001)
    struct.pack_into('<II', h, 0x48, 400, 1)               # header size, type
    struct.pack_into('<Q', h, 0x170, size)
    struct.pack_into('<I', h, 0x178, 1 << 20)              # block size
    return Image('vdi', pad_to(bytes(h), length)[:length], size=size,
                 size_end=512, bounds=[0x40, 0x44, 0x170, 0x178, 512],
                 clean=length >= 512, wellformed=length >= 512, name='vdi')


# ---------------------------------------------------------------------------
# ISO 9660 / UDF (ECMA-119)

ISO_PVD = 32 * 1024
ISO_END = 34 * 1024


def iso(blocks=1000, block_size=2048, desc_type=1, ident=b'CD001',
        length=ISO_END + 2048, system_area=None, seed=0):
    buf = bytearray(max(length, 0))
    full = bytearray(ISO_END)
    if system_area:
        full[0:len(system_area)] = system_area
    full[ISO_PVD] = desc_type
    full[ISO_PVD + 1:ISO_PVD + 6] = ident
    full[ISO_PVD + 6] = 1
    struct.pack_into('<I', full, ISO_PVD + 80, blocks & 0xffffffff)
    struct.pack_into('>I', full, ISO_PVD + 84, blocks & 0xffffffff)
    struct.pack_into('<H', full, ISO_PVD + 128, block_size & 0xffff)
    struct.pack_into('>H', full, ISO_PVD + 130, block_size & 0xffff)
    n = min(len(buf), len(full))
    buf[:n] = full[:n]
    ok = length >= ISO_END
    return Image('iso', bytes(buf), size=(blocks * block_size if desc_type == 1 else 0),
                 size_end=ISO_END,
                 bounds=[ISO_PVD, ISO_PVD + 1, ISO_PVD + 6, ISO_PVD + 80,
                         ISO_PVD + 88, ISO_PVD + 128, ISO_PVD + 132, ISO_END],
                 clean=ok, wellformed=ok and desc_type == 1, name='iso')


# ---------------------------------------------------------------------------
# MBR / GPT (UEFI 2.10 sec. 5)

def gpt_disk(entries=128, entry_size=128, entry_lba=2, length=None, seed=0, signature=b'EFI PART',
             first_usable=None):
    """Protective MBR + primary GPT header at LBA 1 + partition entry array (the
    inspector of the pinned tree reads the MBR only; the header is here so that
    hostile count / size / LBA fields are part of the stream family)."""
    import zlib
    arr_len = min(entries * entry_size, 4 << 20)
    total = max(1024 + 512, entry_lba * 512 + arr_len + 512) if length is None else length
    buf = bytearray(total)
    buf[0:512] = mbr([PTE_GPT], length=512).data
    arr = filler(seed, min(arr_len, max(0, total - entry_lba * 512)), 11)
    buf[entry_lba * 512:entry_lba * 512 + len(arr)] = arr
    h = bytearray(92)
    struct.pack_into('<8sIIIIQQQQ16sQIII', h, 0, signature, 0x00010000, 92, 0, 0, 1, total // 512 - 1,
                     (34 if first_usable is None else first_usable) & ((1 << 64) - 1),
                     max(34, total // 512 - 34), b'\x11' * 16, entry_lba & ((1 << 64) - 1),
                     entries & 0xffffffff, entry_size & 0xffffffff, zlib.crc32(bytes(arr)) & 0xffffffff)
    struct.pack_into('<I', h, 16, zlib.crc32(bytes(h)) & 0xffffffff)
    buf[512:512 + 92] = h
    return Image('gpt', bytes(buf), size=total, bounds=[446, 510, 512, 520, 584, 592, 596, 600, 604, 1024,
                                                        entry_lba * 512, entry_lba * 512 + arr_len],
                 name='gpt-disk')


PTE_EMPTY = dict(boot=0, start=(0, 0, 0), ostype=0, end=(0, 0, 0), lba=0, size=0)
PTE_GPT = dict(boot=0, start=(0, 2, 0), ostype=0xEE, end=(0xff, 0xff, 0xff),
               lba=1, size=0xffffffff)
PTE_GPT_BADCHS = dict(PTE_GPT, start=(0, 1, 0))
PTE_GPT_BADLBA = dict(PTE_GPT, lba=2)
PTE_LINUX = dict(boot=0, start=(0, 32, 33), ostype=0x83, end=(10, 20, 30),
                 lba=2048, size=204800)
PTE_NTFS = dict(PTE_LINUX, ostype=0x07)


def mbr(ptes, signature=0xAA55, length=1024, fat=False, seed=0,
        boot_code=None):
    h = bytearray(512)
    if boot_code:
        h[0:len(boot_code)] = boot_code
    if fat:
        h[0x10] = 2
        h[0x15] = 0xF8
    unsafe = set()
    types = []
    for i, p in enumerate(list(ptes) + [PTE_EMPTY] * (4 - len(ptes))):
        struct.pack_into('<B3BB3BII', h, 446 + 16 * i, p['boot'], *p['start'],
                         p['ostype'], *p['end'], p['lba'], p['size'])
        if p['boot'] not in (0x00, 0x80):
            unsafe.add('boot_flag')
        types.append(p['ostype'])
        if p['ostype'] == 0xEE and (p['start'] != (0, 2, 0) or p['lba'] != 1):
            unsafe.add('gpt_misplaced')
    nonempty = [i for i, t in enumerate(types) if t != 0]
    if 0xEE in types and nonempty != [0]:
        unsafe.add('gpt_accompanied')
    if not nonempty:
        unsafe.add('no_partition')
    struct.pack_into('<H', h, 510, signature)
    is_mbr = signature == 0xAA55 and not fat and length >= 512
    return Image('gpt', pad_to(bytes(h), length)[:length], size=length,
                 bounds=[0x10, 0x15, 446, 462, 478, 494, 510, 512],
                 unsafe=unsafe if is_mbr else set(),
                 clean=is_mbr and not unsafe, wellformed=is_mbr, name='gpt',
                 is_mbr=is_mbr)


# ---------------------------------------------------------------------------
# LUKS v1 (on-disk format 1.2.3)

def luks(version=1, payload_sectors=4096, length=None, magic=b'LUKS\xba\xbe',
         seed=0):
    h = bytearray(592)
    h[0:6] = magic
    struct.pack_into('>H', h, 6, version & 0xffff)
    h[8:8 + 3] = b'aes'
    h[40:40 + 11] = b'xts-plain64'
    h[72:72 + 6] = b'sha256'
    struct.pack_into('>I', h, 104, payload_sectors)
    struct.pack_into('>I', h, 108, 64)
    if length is None:
        length = max(1024, payload_sectors * 512 + 1024)
    data = pad_to(bytes(h), length)[:length]
    unsafe = set() if version == 1 else {'luks_version'}
    ok = length >= 592
    return Image('luks', data, size=length - payload_sectors * 512,
                 size_end=None, bounds=[6, 8, 104, 108, 592], unsafe=unsafe,
                 clean=ok and version == 1, wellformed=ok, name='luks-v%d' % version)


BUILDERS = {'raw': raw, 'qcow2': qcow2, 'qed': qed, 'vhd': vhd, 'vhdx': vhdx,
            'vmdk': vmdk, 'vdi': vdi, 'iso': iso, 'gpt': mbr, 'luks': luks}
