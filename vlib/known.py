"""known_findings.txt: genuine defects that are recorded instead of repaired.

Line formats (anything else, and '#' lines, are ignored):

    known: property=C01 key=F1-vmdk-text  <free text: what fails>
    fixed: property=C01 <commit> <what failed>

A `known:` line *activates* the signature predicate with that key in the
property's check module. Predicates are computed from the input alone. `fixed:`
lines suppress nothing. The file is never written at run time.
"""
import os
import re

PATH = os.path.join(os.path.dirname(os.path.dirname(os.path.abspath(__file__))),
                    'known_findings.txt')

_LINE = re.compile(r'^known:\s+property=(C\d+)\s+key=(\S+)\s+(.*)$')


def load(path=PATH):
    """-> {property: {key: text}}"""
    out = {}
    if not os.path.exists(path):
        return out
    with open(path) as f:
        for line in f:
            m = _LINE.match(line.strip())
            if m:
                out.setdefault(m.group(1), {})[m.group(2)] = m.group(3).strip()
    return out
