"""Engine A - stream-state model checker.

System under exploration: one real FileInspector (or a real InspectWrapper
holding all of them, reading from a scripted source) and one fixed byte string
S. A state is (p, sigma): p bytes presented, sigma the *exact* canonical form of
the live object. Transitions from (p, sigma): chunk(q) for every cut candidate
q > p (deepcopy + the real eat_chunk / read), `empty` (an empty chunk, explored
to its fixed point), and `finish` at p = len(S). States reached twice are
merged (sound by determinism: eat_chunk/finish/queries read and write instance
state only). All 2^|C| chunkings over the candidate set C are thereby covered
at O(|C|^2) cost.
"""
import copy
import logging
import types

from oslo_utils.imageutils import format_inspector as fi

logging.getLogger('oslo_utils.imageutils.format_inspector').disabled = True
logging.getLogger('oslo_utils.imageutils.format_inspector').propagate = False

EMPTY_ROUNDS_CAP = 4
_SIMPLE = (str, bytes, int, bool, type(None), float)


# ---------------------------------------------------------------------------
# canonical forms and verdicts

def _looks_like_region(r):
    return all(hasattr(r, a) for a in ('offset', 'length', 'data', 'complete')) and \
        not isinstance(r, (bytes, str, int, dict, list, tuple))


def regions_attr(i):
    """Name of the attribute in which an inspector keeps its capture regions (a dict
    name -> region), whatever it is called."""
    d = i.__dict__
    if isinstance(d.get('_capture_regions'), dict):
        return '_capture_regions'
    for k, v in d.items():
        if isinstance(v, dict) and v and all(_looks_like_region(r) for r in v.values()):
            return k
    return None


def regions_of(i):
    k = regions_attr(i)
    return i.__dict__[k] if k else {}


def checks_attr(i):
    d = i.__dict__
    if isinstance(d.get('_safety_checks'), dict):
        return '_safety_checks'
    for k, v in d.items():
        if isinstance(v, dict) and v and all(hasattr(c, 'target_fn') for c in v.values()):
            return k
    return None


def checks_of(i):
    """name -> safety check object, whether the inspector keeps them in a dict or in a
    list / tuple of objects that carry their own name."""
    k = checks_attr(i)
    if k:
        return i.__dict__[k]
    for v in i.__dict__.values():
        if isinstance(v, (list, tuple)) and v and all(hasattr(c, 'target_fn') for c in v):
            return {getattr(c, 'name', n): c for n, c in enumerate(v)}
    return {}


def inspectors_attr(w):
    """Name of the attribute in which the wrapper keeps the inspectors it feeds: the
    largest collection of inspectors among its attributes."""
    best, n = None, -1
    for k, v in w.__dict__.items():
        if _is_inspector_collection(v) and len(v) > n:
            best, n = k, len(v)
    return best


def inspectors_of(w):
    k = inspectors_attr(w)
    return w.__dict__[k] if k else []


_SLOT_NAMES = {}


def attrs_of(o):
    """(name, value) of every instance attribute, for objects with a __dict__, with
    __slots__ (anywhere in the class hierarchy), or both."""
    t = type(o)
    names = _SLOT_NAMES.get(t)
    if names is None:
        names = []
        for cls in t.__mro__:
            sl = cls.__dict__.get('__slots__', ())
            for name in ((sl,) if isinstance(sl, str) else sl or ()):
                if isinstance(name, str) and name not in ('__dict__', '__weakref__'):
                    names.append(name)
        names = _SLOT_NAMES[t] = tuple(names)
    if not names:
        return getattr(o, '__dict__', {})
    out = {}
    for name in names:
        try:
            out[name] = getattr(o, name)
        except AttributeError:
            pass
    out.update(getattr(o, '__dict__', {}))
    return out


def canon_value(v, depth=0, skip=()):
    """Structural canonical form of an arbitrary attribute value: never contains an object
    address (a default repr would make every clone a different state)."""
    if isinstance(v, _SIMPLE):
        return v
    if isinstance(v, (bytearray, memoryview)):
        return bytes(v)
    if depth > 6:
        return '...'
    if isinstance(v, (list, tuple)):
        return tuple(canon_value(x, depth + 1, skip) for x in v)
    if isinstance(v, (set, frozenset)):
        return tuple(sorted((canon_value(x, depth + 1, skip) for x in v), key=repr))
    if isinstance(v, dict):
        return tuple(sorted(((canon_value(k, depth + 1, skip), canon_value(x, depth + 1, skip))
                             for k, x in v.items()), key=repr))
    if isinstance(v, fi.FileInspector):
        return ('inspector', getattr(v, 'NAME', type(v).__name__))
    if callable(v):
        return ('callable', getattr(v, '__qualname__', getattr(v, '__name__', type(v).__name__)))
    if _looks_like_region(v):
        return canon_region(v)
    a = attrs_of(v)
    if a:
        return (type(v).__name__,) + tuple(sorted((k, canon_value(x, depth + 1, skip))
                                                  for k, x in a.items() if k not in skip))
    r = repr(v)
    return type(v).__name__ if ' at 0x' in r else r


def canon_region(r):
    # the public face (offset, length, min_length, data) plus every other instance attribute
    # (an end-of-stream flag, a private buffer ...), whatever it is called
    data = bytes(r.data)      # first: a lazily assembled buffer is brought into its settled form
    extra = tuple(sorted((k, canon_value(v, 1))
                         for k, v in attrs_of(r).items()
                         if k not in ('offset', 'length', 'min_length', 'data') and not callable(v)))
    return (type(r).__name__, r.offset, r.length, r.min_length, data, extra)


def observable_inspector(i):
    """What can be observed of an inspector from outside (used where two runs are *compared*
    - the canonical form above is only for merging states and may be finer than this):
    the verdict, the retained sizes and the bytes of every region."""
    regs = tuple((n, r.offset, r.length, bytes(r.data), bool(r.complete))
                 for n, r in sorted(regions_of(i).items()))
    try:
        ctx = tuple(sorted(i.context_info.items()))
    except Exception as e:
        ctx = ('raises', type(e).__name__)
    return (type(i).__name__, verdict_inspector(i), ctx, regs)


def canon_inspector(i):
    ra, ca = regions_attr(i), checks_attr(i)
    regs = tuple((n,) + canon_region(r) for n, r in regions_of(i).items())
    other = tuple(sorted(
        (k, canon_value(v, 1))
        for k, v in i.__dict__.items()
        if k not in (ra, ca, '_tracing') and
        not callable(v)))
    return (type(i).__name__, regs, other, tuple(checks_of(i)))


def _q(fn):
    try:
        return fn()
    except Exception as e:           # recorded, compared like a value
        return ('raises', type(e).__name__)


def safety_outcome(i):
    try:
        r = i.safety_check()
        return 'ok' if r is None else ('returned', repr(r))
    except fi.SafetyCheckFailed as e:
        return ('fail',) + tuple(sorted(e.failures))
    except fi.ImageFormatError:
        return 'refused'
    except Exception as e:
        return ('raises', type(e).__name__)


def verdict_inspector(i):
    return (_q(lambda: bool(i.format_match)), _q(lambda: bool(i.complete)),
            _q(lambda: i.virtual_size), safety_outcome(i))


def query_all(i):
    """The side-effect-free API (I4). Returns the answers."""
    return (_q(lambda: bool(i.format_match)), _q(lambda: bool(i.complete)),
            _q(lambda: i.virtual_size), _q(lambda: i.actual_size),
            _q(lambda: sum(i.context_info.values())), _q(lambda: str(i)),
            safety_outcome(i))


def region_exactness(i, data, p):
    """I1: what a region retains is exactly the stream's bytes at its offsets."""
    bad = []
    for name, r in regions_of(i).items():
        n = len(r.data)
        if n > r.length:
            bad.append((name, 'longer-than-length', n, r.length))
        if n and r.data != data[r.offset:r.offset + n]:
            bad.append((name, 'foreign-bytes', r.offset, n))
        if n and r.offset + n > p:
            bad.append((name, 'beyond-position', r.offset, n, p))
    return bad


# ---------------------------------------------------------------------------
# fast structural clone (equivalent to copy.deepcopy for these objects: every
# value that is not an immutable scalar is deep-copied, bound safety checks are
# re-bound to the clone; `selfcheck_clone` compares it with deepcopy)

def _clone_plain(o, memo=None):
    if not hasattr(o, '__dict__') or getattr(type(o), '__slots__', None):
        # objects with __slots__ (or anything unusual): the general mechanism
        return copy.deepcopy(o, memo if memo is not None else {})
    n = object.__new__(type(o))
    for k, v in o.__dict__.items():
        n.__dict__[k] = v if isinstance(v, _SIMPLE) else copy.deepcopy(v, memo if memo is not None else {})
    return n


def clone_inspector(i):
    n = object.__new__(type(i))
    d = n.__dict__
    ra, ca = regions_attr(i), checks_attr(i)
    # whatever is deep-copied below sees the inspector itself already mapped to its clone, so
    # bound methods and back references inside unknown structures are re-bound, not duplicated
    memo = {id(i): n}
    for k, v in i.__dict__.items():
        if k == ra:
            d[k] = {name: _clone_plain(r, memo) for name, r in v.items()}
        elif k == ca and not all(hasattr(c, '__dict__') for c in v.values()):
            d[k] = copy.deepcopy(v, memo)
        elif k == ca:
            checks = {}
            for name, c in v.items():
                nc = object.__new__(type(c))
                for ck, cv in c.__dict__.items():
                    if ck == 'target_fn':
                        if getattr(cv, '__self__', None) is i:
                            cv = types.MethodType(cv.__func__, n)
                        nc.__dict__[ck] = cv
                    else:
                        nc.__dict__[ck] = (cv if isinstance(cv, _SIMPLE)
                                           else copy.deepcopy(cv, memo))
                checks[name] = nc
            d[k] = checks
        elif isinstance(v, _SIMPLE):
            d[k] = v
        else:
            d[k] = copy.deepcopy(v, memo)
    return n


class DetSet(set):
    """A set whose iteration order is reproducible (by inspector NAME). The
    wrapper keeps its inspectors in a plain set hashed by id; it only iterates
    and tests membership, so this is behaviour-preserving."""

    def __iter__(self):
        return iter(sorted(set.__iter__(self), key=lambda i: (i.NAME, id(i)))
                    if not getattr(self, '_reverse', False) else
                    sorted(set.__iter__(self), key=lambda i: (i.NAME, id(i)),
                           reverse=True))

    def __reduce__(self):
        return (DetSet, (list(self),))


def _is_inspector_collection(v):
    return (isinstance(v, (set, frozenset, list, tuple)) and len(v) > 0 and
            all(isinstance(x, fi.FileInspector) for x in v))


def clone_wrapper(w):
    """Structural clone that does not depend on which private attributes the
    wrapper happens to have: every collection of inspectors is mapped through
    one identity map, everything else is copied by value."""
    n = object.__new__(type(w))
    mapping = {}

    def m(i):
        c = mapping.get(id(i))
        if c is None:
            c = mapping[id(i)] = clone_inspector(i)
        return c
    for k, v in w.__dict__.items():
        if isinstance(v, fi.FileInspector):
            n.__dict__[k] = m(v)
        elif _is_inspector_collection(v):
            if isinstance(v, DetSet):
                nv = DetSet(m(i) for i in set.__iter__(v))
                if getattr(v, '_reverse', False):
                    nv._reverse = True
            else:
                nv = type(v)(m(i) for i in v)
            n.__dict__[k] = nv
        elif isinstance(v, DetSet):
            n.__dict__[k] = DetSet()
        elif isinstance(v, _SIMPLE):
            n.__dict__[k] = v
        else:
            n.__dict__[k] = copy.deepcopy(v)
    return n


def canon_wrapper(w):
    items = []
    ia = inspectors_attr(w)
    for k, v in sorted(w.__dict__.items()):
        if k == ia:
            items.append((k, tuple(sorted((canon_inspector(i) for i in v),
                                          key=lambda c: c[0]))))
        elif isinstance(v, fi.FileInspector):
            items.append((k, v.NAME))
        elif isinstance(v, (set, frozenset, list, tuple)) and all(
                isinstance(x, fi.FileInspector) for x in v):
            items.append((k, tuple(sorted(x.NAME for x in v))))
        elif hasattr(v, 'pos') and not isinstance(v, _SIMPLE):
            items.append((k, (v.pos, getattr(v, 'closed', None))))
        elif isinstance(v, _SIMPLE):
            items.append((k, v))
        else:
            items.append((k, canon_value(v, 1)))
    return tuple(items)


# ---------------------------------------------------------------------------
# systems

class InspectorSystem:
    """A bare inspector of one class fed with eat_chunk."""
    kind = 'inspector'

    def __init__(self, name):
        self.name = name

    def new(self, data):
        return fi.ALL_FORMATS[self.name]()

    def feed(self, obj, data, p, q):
        obj.eat_chunk(data[p:q])

    def feed_empty(self, obj, data, p):
        obj.eat_chunk(b'')

    def finish(self, obj):
        obj.finish()

    canon = staticmethod(canon_inspector)
    verdict = staticmethod(verdict_inspector)
    clone = staticmethod(clone_inspector)

    def inspectors(self, obj):
        return [obj]

    def decision(self, obj):
        return None


class Src:
    """Scripted file-like source; deep copies share the immutable bytes."""

    def __init__(self, data):
        self.data = data
        self.pos = 0
        self.closed = False
        self.reads_after_close = 0
        self.limit = None           # environment answer: at most this many bytes for the next read

    def read(self, n):
        if self.closed:
            self.reads_after_close += 1
        if n is None or n < 0:
            n = len(self.data)
        if self.limit is not None:
            n = min(n, self.limit)
        c = self.data[self.pos:self.pos + n]
        self.pos += len(c)
        return c

    def close(self):
        self.closed = True

    def __deepcopy__(self, memo):
        s = Src(self.data)
        s.pos, s.closed = self.pos, self.closed
        s.limit = self.limit
        s.reads_after_close = self.reads_after_close
        return s


def install_detset(w, reverse=False):
    """The wrapper keeps its inspectors in a set hashed by id: replace it by a set with a
    harness-chosen, reproducible iteration order (only if it *is* a plain set)."""
    k = inspectors_attr(w)
    if k is None or type(w.__dict__[k]) not in (set, DetSet):
        return None
    ds = DetSet(set.__iter__(w.__dict__[k]) if isinstance(w.__dict__[k], DetSet) else w.__dict__[k])
    if reverse:
        ds._reverse = True
    w.__dict__[k] = ds
    return ds


def make_wrapper(data, expected=None, allowed=None, reverse=False, positional=False):
    if positional:
        w = fi.InspectWrapper(Src(data), expected, allowed)     # the documented parameter order
    else:
        w = fi.InspectWrapper(Src(data), expected_format=expected,
                              allowed_formats=allowed)
    # the wrapper keeps its inspectors in a set hashed by id: give it a set
    # with a harness-chosen, reproducible iteration order instead
    install_detset(w, reverse)
    return w


def wrapper_decision(w):
    """('fmts', names) | None | ('raises', cls) - what `formats` says now."""
    try:
        f = w.formats
    except Exception as e:
        return ('raises', type(e).__name__)
    if f is None:
        return None
    return ('fmts', tuple(sorted(str(i) for i in f)))


def wrapper_format(w):
    try:
        f = w.format
    except Exception as e:
        return ('raises', type(e).__name__), None
    if f is None:
        return None, None
    return ('fmt', str(f)), f


class WrapperSystem:
    """An InspectWrapper with all (allowed) inspectors, read through read()."""
    kind = 'wrapper'

    def __init__(self, expected=None, allowed=None, reverse=False, positional=False, ask=None):
        self.expected, self.allowed, self.reverse = expected, allowed, reverse
        self.positional = positional
        # ask: the caller always asks for `ask` bytes and it is the *source* that answers
        # with the piece (a short read; an empty answer in mid-stream for an empty chunk),
        # as a socket or pipe does. None: the caller asks for exactly the piece.
        self.ask = ask
        self.name = 'wrapper' if ask is None else 'wrapper-short'

    def new(self, data):
        return make_wrapper(data, self.expected, self.allowed, self.reverse, self.positional)

    def _src(self, obj):
        for v in vars(obj).values():
            if isinstance(v, Src):
                return v
        raise AssertionError('the wrapper does not hold its source any more')

    def feed(self, obj, data, p, q):
        if self.ask is None:
            got = obj.read(q - p)
        else:
            src = self._src(obj)
            src.limit = q - p
            try:
                got = obj.read(self.ask)
            finally:
                src.limit = None
        if got != data[p:q]:
            raise AssertionError('wrapper altered the bytes')

    def feed_empty(self, obj, data, p):
        if self.ask is None:
            obj.read(0)
        else:
            src = self._src(obj)
            src.limit = 0
            try:
                got = obj.read(self.ask)
            finally:
                src.limit = None
            if got != b'':
                raise AssertionError('wrapper altered the bytes')

    def finish(self, obj):
        obj.close()

    clone = staticmethod(clone_wrapper)

    canon = staticmethod(canon_wrapper)

    def verdict(self, w):
        d = wrapper_decision(w)
        f, insp = wrapper_format(w)
        return (d, f, verdict_inspector(insp) if insp is not None else None)

    def inspectors(self, w):
        return list(inspectors_of(w))

    decision = staticmethod(wrapper_decision)


def make_system(name, **kw):
    if name == 'wrapper':
        return WrapperSystem(**kw)
    if name == 'wrapper-short':
        return WrapperSystem(ask=1 << 22, **kw)
    return InspectorSystem(name)


# ---------------------------------------------------------------------------
# explorer

class Result:
    def __init__(self):
        self.states = 0
        self.transitions = 0
        self.comparisons = 0       # oracle evaluations (invariants + agreements)
        self.verdicts = {}         # verdict -> shortest path reaching it
        self.failures = []         # [{'inv':..., 'path':..., 'detail':...}]
        self.max_ctx = 0
        self.max_ctx_path = None
        self.vsize_by_pos = {}     # position -> set of virtual_size answers
        self.multi_state_positions = 0
        self.empty_changes = 0     # empty chunks that changed the state
        self.caps = []
        self.decisions = 0         # wrapper: states with a decision

    def fail(self, inv, path, detail):
        if len(self.failures) < 40:
            self.failures.append({'inv': inv, 'path': list(path),
                                  'detail': detail})


def cut_candidates(length, bounds, extra=(), seed=0, generic=True):
    c = set()
    for b in bounds:
        c.update((b - 1, b, b + 1))
    if generic:
        k = 1
        while k < length:
            c.add(k)
            k *= 2
        c.update((17, 34, 511, 513, 1023, 4096, 65536))
        if length > 3:
            c.add(1 + (seed * 7919 + 13) % (length - 1))
            c.add(1 + (seed * 104729 + 977) % (length - 1))
    c.update(extra)
    return sorted(x for x in c if 0 < x < length)


def pilot_bounds(system, data, cuts):
    """Offsets/ends of every region the implementation itself creates in two
    pilot runs (one giant chunk; all candidates cut)."""
    out = set()
    for plan in ([len(data)], list(cuts) + [len(data)]):
        obj = system.new(data)
        p = 0
        try:
            for q in plan:
                system.feed(obj, data, p, q)
                p = q
                for i in system.inspectors(obj):
                    for r in regions_of(i).values():
                        if not isinstance(r, fi.EndCaptureRegion):
                            out.update((r.offset, r.offset + r.length,
                                        r.offset + len(r.data)))
                            if r.min_length:
                                out.add(r.offset + r.min_length)
        except Exception:
            pass
    return sorted(x for x in out if 0 < x < len(data))


def explore(system, data, cuts, check_purity=True, check_regions=True,
            empties=True, stop_after_error=True, on_state=None):
    """Exhaustive exploration of all chunkings of `data` over `cuts`.

    on_state(obj, p, path, result) is called once per distinct state (extra
    oracles of the calling check).
    """
    L = len(data)
    res = Result()
    positions = sorted(set(x for x in cuts if 0 < x < L)) + [L]
    obj0 = system.new(data)
    layers = {0: {system.canon(obj0): (obj0, ())}}
    order = [0] + positions if L > 0 else [0]

    for p in order:
        layer = layers.pop(p, None)
        if not layer:
            continue
        # ---- empty-chunk closure ------------------------------------------
        if empties:
            work = list(layer.items())
            rounds = 0
            while work:
                rounds += 1
                if rounds > EMPTY_ROUNDS_CAP:
                    res.caps.append('empty-chunk closure cap at position %d' % p)
                    break
                nxt = []
                for key, (obj, path) in work:
                    o2 = system.clone(obj)
                    res.transitions += 1
                    try:
                        system.feed_empty(o2, data, p)
                    except Exception as e:
                        v = ('error', type(e).__name__)
                        res.verdicts.setdefault(v, path + ('e',))
                        continue
                    k2 = system.canon(o2)
                    d0 = system.decision(obj)
                    if d0 is not None and system.decision(o2) != d0:
                        res.fail('I5-no-revision', path + ('e',),
                                 {'before': d0, 'after': system.decision(o2)})
                    if k2 != key:
                        res.empty_changes += 1
                        if k2 not in layer:
                            layer[k2] = (o2, path + ('e',))
                            nxt.append((k2, layer[k2]))
                work = nxt
        if len(layer) > 1:
            res.multi_state_positions += 1
        # ---- per-state oracles and expansion ------------------------------
        for key, (obj, path) in list(layer.items()):
            res.states += 1
            insps = system.inspectors(obj)
            if check_regions:
                for i in insps:
                    res.comparisons += 1
                    bad = region_exactness(i, data, p)
                    if bad:
                        res.fail('I1-region-exactness', path,
                                 {'inspector': i.NAME, 'bad': bad})
            ctx = 0
            for i in insps:
                n = sum(i.context_info.values())
                ctx = max(ctx, n)
                if n > res.max_ctx:
                    res.max_ctx, res.max_ctx_path = n, (i.NAME, path)
            if system.kind == 'inspector':
                res.vsize_by_pos.setdefault(p, set()).add(
                    _q(lambda: obj.virtual_size))
            if check_purity:
                for i in insps:
                    query_all(i)
                if system.kind == 'wrapper':
                    wrapper_decision(obj)
                    wrapper_format(obj)
                res.comparisons += 1
                if system.canon(obj) != key:
                    res.fail('I4-query-purity', path,
                             {'note': 'a read-only query changed the state'})
            d_before = system.decision(obj)
            if d_before is not None:
                res.decisions += 1
            if on_state is not None:
                on_state(obj, p, path, res)
            if p == L:
                o2 = system.clone(obj)
                res.transitions += 1
                try:
                    system.finish(o2)
                    v = system.verdict(o2)
                except Exception as e:
                    v = ('finish-error', type(e).__name__)
                res.comparisons += 1
                res.verdicts.setdefault(v, path + ('finish',))
                if d_before is not None and system.kind == 'wrapper':
                    if v[0] != d_before:
                        res.fail('I5-no-revision', path + ('finish',),
                                 {'before': d_before, 'after': v[0]})
                continue
            for q in positions:
                if q <= p:
                    continue
                o2 = system.clone(obj)
                res.transitions += 1
                try:
                    system.feed(o2, data, p, q)
                except AssertionError as e:
                    res.fail('transparency', path + (q,), {'error': str(e)})
                    continue
                except Exception as e:
                    v = ('error', type(e).__name__)
                    res.comparisons += 1
                    res.verdicts.setdefault(v, path + (q,))
                    continue
                if d_before is not None:
                    d_after = system.decision(o2)
                    res.comparisons += 1
                    if d_after != d_before:
                        res.fail('I5-no-revision', path + (q,),
                                 {'before': d_before, 'after': d_after})
                k2 = system.canon(o2)
                tgt = layers.setdefault(q, {})
                if k2 not in tgt:
                    tgt[k2] = (o2, path + (q,))
    return res


def _issue_queries(system, obj):
    for i in system.inspectors(obj):
        query_all(i)
    if system.kind == 'wrapper':
        wrapper_decision(obj)
        wrapper_format(obj)


def replay_path(system, data, path, queries=False, observe=True):
    """Plain re-execution of one path (no explorer): returns the trace.
    queries=True re-issues the read-only queries after every step, exactly as
    the explorer does in every state when purity checking is on (intermediate
    queries are part of the schedule). observe=False: nothing at all is asked of
    the object between the steps (not even the decision): what a caller gets who
    only feeds and asks at the end."""
    obj = system.new(data)
    p = 0
    trace = [{'step': 'init', 'decision': system.decision(obj) if observe else None}]
    if queries:
        _issue_queries(system, obj)
    for step in path:
        try:
            if step == 'e':
                system.feed_empty(obj, data, p)
            elif step == 'finish':
                system.finish(obj)
                trace.append({'step': 'finish', 'verdict': system.verdict(obj)})
                continue
            else:
                system.feed(obj, data, p, step)
                p = step
        except Exception as e:
            trace.append({'step': step, 'raised': type(e).__name__,
                          'msg': str(e)[:200]})
            return obj, trace
        if queries:
            _issue_queries(system, obj)
        if not observe:
            trace.append({'step': step})
            continue
        trace.append({'step': step,
                      'regions': [
                          (i.NAME, n, r.offset, len(r.data), r.length)
                          for i in system.inspectors(obj)
                          for n, r in regions_of(i).items()],
                      'decision': system.decision(obj)})
    return obj, trace


# ---------------------------------------------------------------------------
# chunk presentation: the same bytes handed over as bytes / as one re-used
# bytearray / as memoryview slices of one re-used read buffer (the readinto()
# loop of a zero-copy reader). What an inspector concludes, and what it
# retains, must not depend on the container the caller used - nor change when
# the caller re-uses its buffer afterwards.

class TypedSrc:
    def __init__(self, data, kind):
        self.data, self.kind, self.pos = data, kind, 0
        self.buf = bytearray(max(1, len(data)))
        self.ba = bytearray()
        self.last = None

    def present(self, chunk):
        n = len(chunk)
        if self.kind == 'bytes':
            return chunk
        if self.kind == 'bytearray':
            del self.ba[:]
            self.ba += chunk
            self.last = ('ba', n)
            return self.ba
        self.buf[:n] = chunk
        self.last = ('mv', n)
        return memoryview(self.buf)[:n]

    def scribble(self):
        """The caller re-uses its buffer."""
        if self.last is None:
            return
        kind, n = self.last
        if kind == 'ba':
            self.ba[:] = b'\xaa' * len(self.ba)
        else:
            self.buf[:n] = b'\xaa' * n

    def read(self, n):
        c = self.data[self.pos:self.pos + n]
        self.pos += len(c)
        return self.present(c)

    def close(self):
        pass


def typed_run(sysname, data, cuts, kind, allowed=None):
    """One linear run over `cuts` with chunks presented as `kind`.
    -> (verdict or ('error', cls), list of region problems)"""
    src = TypedSrc(data, kind)
    pts = [0] + [c for c in sorted(set(cuts)) if 0 < c < len(data)] + [len(data)]
    bad = []
    try:
        if sysname == 'wrapper':
            w = fi.InspectWrapper(src, allowed_formats=allowed)
            install_detset(w)
            for a, b in zip(pts, pts[1:]):
                got = w.read(b - a)
                if bytes(got) != data[a:b]:
                    return ('transparency-broken',), bad
                src.scribble()
            w.close()
            for i in inspectors_of(w):
                bad += [(i.NAME,) + x for x in region_exactness(i, data, len(data))]
            sysm = WrapperSystem()
            return sysm.verdict(w), bad
        insp = fi.ALL_FORMATS[sysname]()
        for a, b in zip(pts, pts[1:]):
            insp.eat_chunk(src.present(data[a:b]))
            src.scribble()
        insp.finish()
        # (what container a region uses internally is its own business: only
        # the bytes it holds after the caller re-used its buffer are compared)
        bad = region_exactness(insp, data, len(data))
        return verdict_inspector(insp), bad
    except Exception as e:
        return ('error', type(e).__name__), bad
