"""Engine C - bounded-exhaustive enumeration of a finite product of input
shapes against a reference model.

A check registers a product (list of factor alphabets) and a case function
`fn(values, acc)`; the engine runs the *entire* product, partitioned
deterministically over the worker processes (mixed-radix index ranges). The
case function reports through `acc`:

    acc.count(name)                 counters
    acc.nontrivial(key)             one distinct non-trivial case
    acc.fail(cls, summary, payload, sigs=())   a disagreement with the reference
    acc.sample(obj)                 an example case for the evidence
"""
from vlib import par
from vlib.report import Report

_REG = {}

# "Background activity": unrelated calls of other public functions of the module under test,
# one of them (in rotation, by case index) before every case. A pure function's answer cannot
# depend on what else the process has used the module for; state shared between functions
# (a cache keyed too coarsely, a module-level buffer, a warmed-up parser) can. The calls are
# deterministic, so a replay through rerun() repeats them.
NOISE = []


def set_noise(calls):
    NOISE[:] = list(calls)


def _noise(idx, every=1):
    if NOISE and idx % every == 0:
        try:
            NOISE[(idx // every) % len(NOISE)]()
        except Exception:
            pass


def size(factors):
    n = 1
    for f in factors:
        n *= len(f)
    return n


def decode(factors, idx):
    vals = []
    for f in reversed(factors):
        idx, r = divmod(idx, len(f))
        vals.append(f[r])
    return tuple(reversed(vals))


def _work(job):
    label, lo, hi, active = job
    factors, fn, every = _REG[label]
    acc = Report('worker', active)
    for idx in range(lo, hi):
        vals = decode(factors, idx)
        acc.counters['evaluations'] += 1
        acc.current_case = [label, idx]
        _noise(idx, every)
        try:
            fn(vals, acc)
        except Exception as e:
            # The case function itself blew up: on the unchanged tree this never
            # happens (the checks pass), so it means the code under test did
            # something the oracle did not anticipate (e.g. raised where it
            # must return). Reported as a violation, with the traceback.
            import traceback
            acc.fail('case-raised:%s:%s' % (label, type(e).__name__),
                     {'case': repr(vals)[:300], 'traceback': traceback.format_exc()[-1500:]},
                     {'case_raised': repr(vals)[:2000], 'label': label})
    return acc.export()


def run(rep, label, factors, fn, nparts=None):
    """Runs the whole product. Returns the number of cases."""
    factors = [list(f) for f in factors]
    n = size(factors)
    # one background call per case for small products, sparser for large ones
    _REG[label] = (factors, fn, 1 if n <= 20000 else 8 if n <= 200000 else 64)
    if n == 0:
        return 0
    if nparts is None:
        nparts = max(1, min(par.workers() * 4, n // 200 + 1))
    step = (n + nparts - 1) // nparts
    jobs = [(label, lo, min(n, lo + step), rep.active) for lo in range(0, n, step)]
    if len(jobs) == 1:
        res = [_work(jobs[0])]
    else:
        res = par.pmap(_work, jobs)
    for r in res:
        rep.merge(r)
    rep.counters['cases:' + label] += n
    return n


def run_list(rep, label, cases, fn, nparts=None):
    """Same for an explicit list of cases."""
    return run(rep, label, [list(cases)], lambda vals, acc: fn(vals[0], acc), nparts)


def rerun(label, idx, back=3):
    """Re-executes cases idx-back .. idx of a registered product in this process,
    in order, with a fresh accumulator: the replay of a failure whose answer
    depends on the calls that preceded it (a cache keyed too coarsely, state
    kept between calls). -> list of failure summaries of the last case."""
    if label not in _REG:
        return None
    factors, fn, every = _REG[label]
    out = []
    for i in range(max(0, idx - back), idx + 1):
        acc = Report('replay', {})
        _noise(i, every)
        try:
            fn(decode(factors, i), acc)
        except Exception as e:
            acc.fail('case-raised', {'exception': type(e).__name__}, {})
        if i == idx:
            out = [{'class': k, 'summary': v['summary']} for k, v in acc.violations.items()]
    return out
