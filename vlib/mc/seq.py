"""Engine B - operation-sequence model checker (explicit-state BFS).

A node is a live implementation object together with a reference-model object
and the history that reached it. A transition applies one action from a finite
alphabet to deep copies of both, in lock-step; `step` reports any disagreement.
Nodes are deduplicated on `canon(node)`; BFS order makes the first
counterexample the shortest, and the alphabet is expected simplest-first.

The engine is exhaustive up to `depth`: every action sequence of length
<= depth is represented (sequences through an already-seen canonical state are
represented by the first path that reached it).
"""


class Node:
    __slots__ = ('impl', 'ref', 'hist', 'extra')

    def __init__(self, impl, ref, hist=(), extra=None):
        self.impl = impl
        self.ref = ref
        self.hist = hist
        self.extra = extra


def bfs(roots, actions, step, canon, depth, on_fail, counters,
        enabled=None, stop_at_failure=True):
    """
    roots     iterable of Node
    actions   list of actions (any hashable/JSON-able value)
    step      (node, action) -> (new_node, problem|None); must not mutate node
    canon     node -> hashable canonical state
    on_fail   (node_before, action, problem) -> None
    counters  Counter-like; updated: states, transitions,
              traces_validated_against_impl, max_depth
    enabled   optional (node) -> iterable of actions (default: all)
    A failing transition is not expanded further.
    """
    seen = set()
    frontier = []
    for r in roots:
        k = canon(r)
        if k not in seen:
            seen.add(k)
            frontier.append(r)
    counters['states'] += len(frontier)
    d = 0
    while frontier and d < depth:
        nxt = []
        for node in frontier:
            acts = actions if enabled is None else enabled(node)
            for a in acts:
                new, problem = step(node, a)
                counters['transitions'] += 1
                counters['traces_validated_against_impl'] += 1
                if problem is not None:
                    on_fail(node, a, problem)
                    continue
                k = canon(new)
                if k not in seen:
                    seen.add(k)
                    nxt.append(new)
        counters['states'] += len(nxt)
        frontier = nxt
        d += 1
    counters['max_depth'] = max(counters.get('max_depth', 0), d)
    return len(seen)
