"""Literal constants of the code under test, as alphabet material.

The alphabets of the checks are fixed lists built around the boundaries the
formats and the statements define. A change to the library can introduce a new
*distinguished value* (a comparison against a number that is no boundary of any
field, a new special-cased key, a new size threshold). Such a value is part of
the code's own vocabulary, so the explorers add it to their alphabets: every
integer / string / bytes literal found in a module of the tree under test that
is NOT in the list recorded for the pinned tree (vlib/ref/literals_baseline.json,
written by tools/gen_literals_baseline.py) is handed to the check for that
module, which enumerates it like any other alphabet value (and, for integers,
its neighbours v-1, v+1).

On the pinned tree the extra set is empty, so the explored space is exactly the
documented one; on a changed tree the space only grows. Nothing is sampled and
no oracle is touched: the values merely become additional points of the
enumeration, so this can never raise an alarm on code where the property holds.
"""
import ast
import json
import os

from vlib import repo

BASELINE = os.path.join(os.path.dirname(os.path.abspath(__file__)), 'ref',
                        'literals_baseline.json')

MODULES = [
    'oslo_utils/imageutils/format_inspector.py', 'oslo_utils/imageutils/cli.py',
    'oslo_utils/imageutils/qemu.py', 'oslo_utils/strutils.py',
    'oslo_utils/timeutils.py', 'oslo_utils/netutils.py', 'oslo_utils/excutils.py',
    'oslo_utils/versionutils.py', 'oslo_utils/specs_matcher.py',
    'oslo_utils/fileutils.py', 'oslo_utils/encodeutils.py',
    'oslo_utils/uuidutils.py', 'oslo_utils/fixture.py', 'oslo_utils/units.py',
]


def _fold(node):
    """Value of a constant expression such as 1 << 20, 64 * 1024, -5, or None."""
    if isinstance(node, ast.Constant):
        v = node.value
        if isinstance(v, bool) or not isinstance(v, (int, float)):
            return None
        return v
    if isinstance(node, ast.UnaryOp) and isinstance(node.op, (ast.USub, ast.UAdd)):
        v = _fold(node.operand)
        if v is None:
            return None
        return -v if isinstance(node.op, ast.USub) else v
    if isinstance(node, ast.BinOp):
        a, b = _fold(node.left), _fold(node.right)
        if a is None or b is None:
            return None
        try:
            if isinstance(node.op, ast.Add):
                return a + b
            if isinstance(node.op, ast.Sub):
                return a - b
            if isinstance(node.op, ast.Mult):
                return a * b
            if isinstance(node.op, ast.LShift) and 0 <= b <= 80:
                return a << b
            if isinstance(node.op, ast.Pow) and 0 <= b <= 80 and abs(a) <= 1 << 16:
                return a ** b
            if isinstance(node.op, ast.FloorDiv) and b:
                return a // b
        except Exception:
            return None
    return None


def harvest_source(text):
    ints, floats, strs, bys = set(), set(), set(), set()
    try:
        tree = ast.parse(text)
    except SyntaxError:
        return {'ints': [], 'floats': [], 'strs': [], 'bytes': []}
    docstrings = set()
    for n in ast.walk(tree):
        if isinstance(n, (ast.Module, ast.ClassDef, ast.FunctionDef, ast.AsyncFunctionDef)):
            b = n.body
            if b and isinstance(b[0], ast.Expr) and isinstance(b[0].value, ast.Constant) \
                    and isinstance(b[0].value.value, str):
                docstrings.add(id(b[0].value))
    for n in ast.walk(tree):
        if isinstance(n, ast.Constant):
            v = n.value
            if isinstance(v, bool) or v is None or id(n) in docstrings:
                continue
            if isinstance(v, int):
                ints.add(v)
            elif isinstance(v, float):
                floats.add(v)
            elif isinstance(v, str):
                if len(v) <= 200:
                    strs.add(v)
            elif isinstance(v, bytes):
                if len(v) <= 200:
                    bys.add(v)
        elif isinstance(n, (ast.BinOp, ast.UnaryOp)):
            v = _fold(n)
            if isinstance(v, int):
                ints.add(v)
            elif isinstance(v, float):
                floats.add(v)
    return {'ints': sorted(ints), 'floats': sorted(floats), 'strs': sorted(strs),
            'bytes': sorted(b.hex() for b in bys)}


def harvest(relpath, root=None):
    p = os.path.join(root or repo.root(), relpath)
    try:
        with open(p, encoding='utf-8') as f:
            return harvest_source(f.read())
    except OSError:
        return {'ints': [], 'floats': [], 'strs': [], 'bytes': []}


_base = None


def baseline():
    global _base
    if _base is None:
        try:
            with open(BASELINE) as f:
                _base = json.load(f)
        except OSError:
            _base = {}
    return _base


def new(*relpaths):
    """Literals of the given modules of the tree under test that the pinned tree
    did not have. -> {'ints': [...], 'floats': [...], 'strs': [...], 'bytes': [bytes...]}"""
    out = {'ints': set(), 'floats': set(), 'strs': set(), 'bytes': set()}
    for rp in relpaths:
        cur = harvest(rp)
        old = baseline().get(rp)
        if old is None:
            continue            # module unknown to the baseline: nothing to compare with
        for k in out:
            out[k] |= set(cur[k]) - set(old.get(k, []))
    return {'ints': sorted(out['ints']), 'floats': sorted(out['floats']),
            'strs': sorted(out['strs']),
            'bytes': sorted(bytes.fromhex(h) for h in out['bytes'])}


def int_neighbours(vals, lo=None, hi=None):
    s = set()
    for v in vals:
        for d in (-1, 0, 1):
            w = v + d
            if (lo is None or w >= lo) and (hi is None or w <= hi):
                s.add(w)
    return sorted(s)


def describe(*relpaths):
    n = new(*relpaths)
    return {'ints': n['ints'], 'floats': n['floats'], 'strs': n['strs'],
            'bytes': [b.hex() for b in n['bytes']]}
