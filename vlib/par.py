"""Deterministic fan-out of independent work items over long-lived processes.

Workers are forked once per call (not per execution); results come back in
item order, so merged reports do not depend on scheduling.
"""
import multiprocessing
import os
import traceback


def workers():
    try:
        n = int(os.environ.get('VERIF_WORKERS', '0'))
    except ValueError:
        n = 0
    return n if n > 0 else min(16, os.cpu_count() or 1)


class WorkerError(RuntimeError):
    pass


def _call(args):
    fn, item = args
    try:
        return ('ok', fn(item))
    except BaseException:
        return ('err', traceback.format_exc())


def pmap(fn, items, chunksize=1):
    """fn must be a module-level function; items a list. Ordered results."""
    items = list(items)
    n = min(workers(), len(items))
    if n <= 1:
        out = [_call((fn, it)) for it in items]
    else:
        ctx = multiprocessing.get_context('fork')
        with ctx.Pool(n) as pool:
            out = list(pool.imap(_call, [(fn, it) for it in items],
                                 chunksize=chunksize))
    res = []
    for tag, val in out:
        if tag == 'err':
            raise WorkerError(val)
        res.append(val)
    return res
