#!/venv/bin/python
"""Systematic operator mutation of the functions the statements name (non-image modules).

  tools/automutate.py gen                 -> /tmp/automut/mutants.json (one record per mutant)
  tools/automutate.py suite [N]           -> runs the repository's own suite on every mutant
                                             (N workers), keeps those it does not notice
  tools/automutate.py check [N]           -> runs the property's quick check on each survivor
  tools/automutate.py report              -> /verif/AUTOMUTATION_RESULTS.md

Operators: comparison flips (< <=, > >=, == !=, is / is not, in / not in), and <-> or,
`not x` -> `x`, True <-> False, small integer constants +-1, + <-> -.
Every mutant is one token changed in one function; it is applied to a scratch copy of
/repo's tree (never to /repo). Scratch copies live under /tmp/automut and are removed by
`report`. Nothing registered in MANIFEST.json depends on this tool."""
import ast
import json
import multiprocessing
import os
import re
import shutil
import subprocess
import sys

ROOT = '/tmp/automut'
TARGETS = {
    'oslo_utils/strutils.py': {
        'bool_from_string': 'C14', 'is_valid_boolstr': 'C14', 'string_to_bytes': 'C10',
        'to_slug': 'C16', 'mask_password': 'C04', 'mask_dict_password': 'C08',
        'is_int_like': 'C14', 'check_string_length': 'C14', 'validate_integer': 'C14',
        'split_path': 'C19', 'split_by_commas': 'C19'},
    'oslo_utils/netutils.py': {
        'parse_host_port': 'C15', 'get_ipv6_addr_by_EUI64': 'C15', 'get_mac_addr_by_ipv6': 'C15',
        'escape_ipv6': 'C15', 'urlsplit': 'C15', '_ModifiedSplitResult.params': 'C15',
        'is_valid_ipv4': 'C11', 'is_valid_ipv6': 'C11', 'is_valid_ip': 'C11', 'is_valid_cidr': 'C11',
        'is_valid_ipv6_cidr': 'C11', 'is_valid_mac': 'C11', '_is_int_in_range': 'C11',
        'is_valid_port': 'C11', 'is_valid_icmp_type': 'C11', 'is_valid_icmp_code': 'C11'},
    'oslo_utils/timeutils.py': {
        'normalize_time': 'C12', 'is_older_than': 'C12', 'is_newer_than': 'C12', 'utcnow_ts': 'C12',
        'utcnow': 'C12', 'set_time_override': 'C12', 'advance_time_delta': 'C12',
        'advance_time_seconds': 'C12', 'clear_time_override': 'C12', 'marshall_now': 'C12',
        'unmarshall_time': 'C12', 'is_soon': 'C12', 'parse_isotime': 'C12',
        'StopWatch.__init__': 'C13', 'StopWatch.start': 'C13', 'StopWatch.split': 'C13',
        'StopWatch.restart': 'C13', 'StopWatch._delta_seconds': 'C13', 'StopWatch.elapsed': 'C13',
        'StopWatch.__enter__': 'C13', 'StopWatch.__exit__': 'C13', 'StopWatch.leftover': 'C13',
        'StopWatch.expired': 'C13', 'StopWatch.has_started': 'C13', 'StopWatch.has_stopped': 'C13',
        'StopWatch.resume': 'C13', 'StopWatch.stop': 'C13', 'StopWatch.splits': 'C13'},
    'oslo_utils/excutils.py': {
        'save_and_reraise_exception.__init__': 'C09', 'save_and_reraise_exception.force_reraise': 'C09',
        'save_and_reraise_exception.capture': 'C09', 'save_and_reraise_exception.__enter__': 'C09',
        'save_and_reraise_exception.__exit__': 'C09', 'exception_filter.__init__': 'C09',
        'exception_filter.__get__': 'C09', 'exception_filter.__enter__': 'C09',
        'exception_filter.__exit__': 'C09', 'exception_filter.__call__': 'C09',
        'exception_filter._should_ignore_ex': 'C09'},
    'oslo_utils/versionutils.py': {
        'is_compatible': 'C17', 'convert_version_to_int': 'C17', 'convert_version_to_str': 'C17',
        'convert_version_to_tuple': 'C17', 'VersionPredicate.__init__': 'C17',
        'VersionPredicate._parse_predicate': 'C17', 'VersionPredicate.satisfied_by': 'C17'},
    'oslo_utils/specs_matcher.py': {'*': 'C18'},
    'oslo_utils/fileutils.py': {
        'compute_file_checksum': 'C20', 'last_bytes': 'C20', 'write_to_tempfile': 'C20',
        'ensure_tree': 'C20', 'delete_if_exists': 'C20', 'remove_path_on_error': 'C09'},
    'oslo_utils/encodeutils.py': {'safe_decode': 'C16', 'safe_encode': 'C16', 'to_utf8': 'C16'},
    'oslo_utils/uuidutils.py': {'is_uuid_like': 'C14', '_format_uuid_string': 'C14', 'generate_uuid': 'C14'},
    'oslo_utils/imageutils/qemu.py': {'QemuImgInfo._extract_bytes': 'C10', 'QemuImgInfo._extract_details': 'C10'},
}
IMG_TARGETS = {
    'oslo_utils/imageutils/format_inspector.py': {
        'CaptureRegion.complete': 'C01', 'CaptureRegion.capture': 'C01', 'EndCaptureRegion.capture': 'C01',
        'EndCaptureRegion.complete': 'C01', 'FileInspector._capture': 'C01', 'FileInspector.eat_chunk': 'C01',
        'FileInspector.finish': 'C01', 'FileInspector.complete': 'C02',
        'SafetyCheck.__call__': 'C02', 'FileInspector.safety_check': 'C02',
        'QcowInspector.check_backing_file': 'C02', 'QcowInspector.check_unknown_features': 'C02',
        'QcowInspector.check_data_file': 'C02', 'VMDKInspector.check_descriptor': 'C02',
        'VMDKInspector.check_footer': 'C02', 'VMDKInspector._parse_descriptor': 'C02',
        'GPTInspector.check_mbr_partitions': 'C02', 'LUKSInspector.check_version': 'C02',
        'QcowInspector.format_match': 'C03', 'QEDInspector.format_match': 'C03', 'VHDInspector.format_match': 'C03',
        'VHDXInspector.format_match': 'C03', 'VMDKInspector.format_match': 'C03', 'VDIInspector.format_match': 'C03',
        'ISOInspector.format_match': 'C03', 'GPTInspector.format_match': 'C03', 'GPTInspector._check_for_fat': 'C03',
        'LUKSInspector.format_match': 'C03', 'InspectWrapper.formats': 'C03', 'InspectWrapper.format': 'C03',
        'InspectWrapper.__init__': 'C03', 'detect_file_format': 'C03',
        'VHDXInspector._find_meta_region': 'C05', 'VHDXInspector._find_meta_entry': 'C05',
        'VMDKInspector.post_process': 'C05', 'VHDXInspector.post_process': 'C05',
        'InspectWrapper._process_chunk': 'C06', 'InspectWrapper.__next__': 'C06', 'InspectWrapper.read': 'C06',
        'InspectWrapper.close': 'C06', 'InspectWrapper._finish': 'C06',
        'QcowInspector.region_complete': 'C07', 'QcowInspector.virtual_size': 'C07', 'VHDInspector.virtual_size': 'C07',
        'VHDXInspector.virtual_size': 'C07', 'VMDKInspector.virtual_size': 'C07', 'VDIInspector.virtual_size': 'C07',
        'ISOInspector.virtual_size': 'C07', 'LUKSInspector.virtual_size': 'C07', 'LUKSInspector.header_items': 'C07',
        'VMDKInspector._parse_sparse_header': 'C07'},
}
if os.environ.get('AUTOMUT_SET') == 'img':
    TARGETS = IMG_TARGETS
    ROOT = '/tmp/automut-img'
CMP = {ast.Lt: '<', ast.LtE: '<=', ast.Gt: '>', ast.GtE: '>=', ast.Eq: '==', ast.NotEq: '!=',
       ast.Is: 'is', ast.IsNot: 'is not', ast.In: 'in', ast.NotIn: 'not in'}
FLIP = {'<': ['<=', '>'], '<=': ['<', '>='], '>': ['>=', '<'], '>=': ['>', '<='], '==': ['!='],
        '!=': ['=='], 'is': ['is not'], 'is not': ['is'], 'in': ['not in'], 'not in': ['in']}


def funcs(tree):
    out = []

    def walk(n, pre=''):
        for c in ast.iter_child_nodes(n):
            if isinstance(c, (ast.FunctionDef, ast.AsyncFunctionDef)):
                out.append((pre + c.name, c))
                walk(c, pre + c.name + '.')
            elif isinstance(c, ast.ClassDef):
                walk(c, pre + c.name + '.')
    walk(tree)
    return out


def offs(lines, lineno, col):
    return sum(len(x) for x in lines[:lineno - 1]) + len(lines[lineno - 1].encode()[:col].decode())


def gen():
    muts = []
    for rel, table in TARGETS.items():
        src = open('/repo/' + rel, encoding='utf-8').read()
        lines = src.splitlines(keepends=True)
        tree = ast.parse(src)
        for name, fn in funcs(tree):
            check = table.get(name) or (table.get('*') if '.' not in name or '*' in table else None)
            if check is None:
                continue
            doc = ast.get_docstring(fn, clean=False)
            skip = set()
            if doc is not None:
                skip.add(id(fn.body[0].value))
            for node in ast.walk(fn):
                def span(a, b):
                    return offs(lines, a.end_lineno, a.end_col_offset), offs(lines, b.lineno, b.col_offset)

                def add(lo, hi, new, kind):
                    old = src[lo:hi]
                    if old == new:
                        return
                    muts.append({'file': rel, 'func': name, 'check': check, 'lo': lo, 'hi': hi,
                                 'old': old, 'new': new, 'kind': kind,
                                 'line': src.count('\n', 0, lo) + 1})
                if isinstance(node, ast.Compare):
                    left = node.left
                    for op, right in zip(node.ops, node.comparators):
                        lo, hi = span(left, right)
                        text = src[lo:hi]
                        sym = CMP.get(type(op))
                        if sym and re.fullmatch(r'\s*' + re.escape(sym).replace(r'\ ', r'\s+') + r'\s*', text):
                            for alt in FLIP[sym]:
                                add(lo, hi, ' %s ' % alt, 'cmp')
                        left = right
                elif isinstance(node, ast.BoolOp):
                    sym = 'and' if isinstance(node.op, ast.And) else 'or'
                    for a, b in zip(node.values, node.values[1:]):
                        lo, hi = span(a, b)
                        text = src[lo:hi]
                        m = re.fullmatch(r'(\)?\s*)' + sym + r'(\s*\(?)', text, re.S)
                        if m:
                            add(lo + len(m.group(1)), hi - len(m.group(2)), 'or' if sym == 'and' else 'and', 'bool')
                elif isinstance(node, ast.UnaryOp) and isinstance(node.op, ast.Not):
                    lo = offs(lines, node.lineno, node.col_offset)
                    hi = offs(lines, node.operand.lineno, node.operand.col_offset)
                    if re.fullmatch(r'not\s+\(?', src[lo:hi]) and not src[lo:hi].endswith('('):
                        add(lo, hi, '', 'not')
                elif isinstance(node, ast.Constant) and id(node) not in skip:
                    lo = offs(lines, node.lineno, node.col_offset)
                    hi = offs(lines, node.end_lineno, node.end_col_offset)
                    v = node.value
                    if v is True or v is False:
                        add(lo, hi, 'False' if v else 'True', 'const-bool')
                    elif isinstance(v, int) and not isinstance(v, bool) and abs(v) <= 70000 \
                            and re.fullmatch(r'\d+', src[lo:hi]):
                        add(lo, hi, str(v + 1), 'const-int')
                        if v > 0:
                            add(lo, hi, str(v - 1), 'const-int')
                elif isinstance(node, ast.BinOp) and isinstance(node.op, (ast.Add, ast.Sub)):
                    lo, hi = span(node.left, node.right)
                    sym = '+' if isinstance(node.op, ast.Add) else '-'
                    if re.fullmatch(r'\s*\%s\s*' % sym, src[lo:hi]):
                        add(lo, hi, ' %s ' % ('-' if sym == '+' else '+'), 'arith')
    for i, m in enumerate(muts):
        m['id'] = 'am%04d' % i
    os.makedirs(ROOT, exist_ok=True)
    json.dump(muts, open(ROOT + '/mutants.json', 'w'), indent=0)
    print('mutants:', len(muts))
    by = {}
    for m in muts:
        by[m['check']] = by.get(m['check'], 0) + 1
    print(sorted(by.items()))


def scratch(worker):
    d = '%s/w%d' % (ROOT, worker)
    if not os.path.isdir(d):
        os.makedirs(d)
        subprocess.run('cd /repo && git ls-files -z | xargs -0 cp --parents -t %s' % d, shell=True, check=True)
    return d


def apply(m, d):
    p = os.path.join(d, m['file'])
    src = open('/repo/' + m['file'], encoding='utf-8').read()
    assert src[m['lo']:m['hi']] == m['old']
    open(p, 'w', encoding='utf-8').write(src[:m['lo']] + m['new'] + src[m['hi']:])


def restore(m, d):
    shutil.copyfile('/repo/' + m['file'], os.path.join(d, m['file']))


def _wid():
    ident = multiprocessing.current_process()._identity
    return ident[0] if ident else 0


def suite_one(m):
    d = scratch(_wid())
    apply(m, d)
    try:
        try:
            compile(open(os.path.join(d, m['file'])).read(), m['file'], 'exec')
        except SyntaxError:
            return m['id'], 'syntax-error'
        try:
            r = subprocess.run(['/venv/bin/python', '-m', 'pytest', '-q', '-p', 'no:cacheprovider', '-x',
                                '--timeout=120', '--continue-on-collection-errors',
                                '--deselect', 'oslo_utils/tests/imageutils/test_format_inspector.py::TestFormatInspectors::test_format_5_gpt',
                                '--deselect', 'oslo_utils/tests/imageutils/test_format_inspector.py::TestFormatInspectors::test_format_6_luks',
                                '--deselect', 'oslo_utils/tests/imageutils/test_format_inspector.py::TestFormatInspectors::test_vmdk_bad_descriptor_mem_limit',
                                '--deselect', 'oslo_utils/tests/imageutils/test_format_inspector.py::TestFormatInspectors::test_vmdk_bad_descriptor_mem_limit_stream_optimized',
                                '--deselect', 'oslo_utils/tests/imageutils/test_qemu.py::ImageUtilsHumanRawTestCase::test_qemu_img_info_human_format',
                                '--deselect', 'oslo_utils/tests/imageutils/test_qemu.py::ImageUtilsHumanQemuTestCase::test_qemu_img_info_human_format',
                                '--deselect', 'oslo_utils/tests/test_strutils.py::StringToBytesTest::test_string_to_bytes'],
                               cwd=d, env=dict(os.environ, PYTHONPATH=d), capture_output=True, text=True, timeout=600)
            tail = r.stdout.strip().splitlines()[-1] if r.stdout.strip() else 'no output'
        except subprocess.TimeoutExpired:
            tail = 'timeout'
        return m['id'], tail
    finally:
        restore(m, d)


def check_one(m):
    d = scratch(100 + _wid())
    apply(m, d)
    try:
        try:
            r = subprocess.run(['./vcheck', m['check']], cwd='/verif',
                               env=dict(os.environ, OSLO_UTILS_VERIF_REPO=d, VERIF_SEED='0',
                                        VERIF_SCRATCH_EVIDENCE=d + '/ev'),
                               capture_output=True, text=True, timeout=900)
            cls = ''
            for line in r.stdout.splitlines():
                if line.startswith('  class'):
                    cls = line.strip()[6:].split(' x')[0][:80]
                    break
            return m['id'], r.returncode, cls
        except subprocess.TimeoutExpired:
            return m['id'], 'timeout', ''
    finally:
        restore(m, d)


def main():
    cmd = sys.argv[1]
    n = int(sys.argv[2]) if len(sys.argv) > 2 else 8
    if cmd == 'gen':
        return gen()
    muts = json.load(open(ROOT + '/mutants.json'))
    if cmd == 'suite':
        res = json.load(open(ROOT + '/suite.json')) if os.path.exists(ROOT + '/suite.json') else {}
        todo = [m for m in muts if m['id'] not in res]
        with multiprocessing.Pool(n) as pool:
            for k, (mid, tail) in enumerate(pool.imap_unordered(suite_one, todo)):
                res[mid] = tail
                if k % 25 == 0:
                    json.dump(res, open(ROOT + '/suite.json', 'w'))
                    print(k, len(todo), flush=True)
        json.dump(res, open(ROOT + '/suite.json', 'w'))
        ok = [i for i, t in res.items() if ' failed' not in t and ' error' not in t and ' passed' in t]
        print('suite does not notice:', len(ok), 'of', len(res))
    elif cmd == 'check':
        suite = json.load(open(ROOT + '/suite.json'))
        res = json.load(open(ROOT + '/check.json')) if os.path.exists(ROOT + '/check.json') else {}
        todo = [m for m in muts if m['id'] in suite and ' failed' not in suite[m['id']]
                and ' error' not in suite[m['id']] and ' passed' in suite[m['id']] and m['id'] not in res]
        stride = int(os.environ.get('AUTOMUT_STRIDE', '1'))
        if stride > 1:
            # every stride-th unnoticed mutant of each check, in source order (a stated subset)
            seen = {}
            keep = []
            for m in todo:
                k = seen.get(m['check'], 0)
                seen[m['check']] = k + 1
                if k % stride == 0:
                    keep.append(m)
            todo = keep
        with multiprocessing.Pool(n) as pool:
            for k, (mid, rc, cls) in enumerate(pool.imap_unordered(check_one, todo)):
                res[mid] = [rc, cls]
                if k % 10 == 0:
                    json.dump(res, open(ROOT + '/check.json', 'w'))
                    print(k, len(todo), flush=True)
        json.dump(res, open(ROOT + '/check.json', 'w'))
    elif cmd == 'report':
        suite = json.load(open(ROOT + '/suite.json'))
        res = json.load(open(ROOT + '/check.json'))
        triage = {}
        tp = '/verif/tools/automutate_triage%s.json' % ('_img' if os.environ.get('AUTOMUT_SET') == 'img' else '')
        if os.path.exists(tp):
            triage = json.load(open(tp))
        rows, tot = [], {}
        for m in muts:
            t = suite.get(m['id'], '')
            noticed = not (' failed' not in t and ' error' not in t and ' passed' in t)
            c = tot.setdefault(m['check'], {'all': 0, 'suite': 0, 'caught': 0, 'silent': 0, 'other': 0, 'notrun': 0})
            c['all'] += 1
            if noticed:
                c['suite'] += 1
                continue
            rc, cls = res.get(m['id'], ['not-run', ''])
            if rc == 1:
                c['caught'] += 1
            elif rc == 0:
                c['silent'] += 1
                key = '%s:%s:%d:%s->%s' % (m['file'], m['func'], m['line'], m['old'].strip(), m['new'].strip())
                rows.append('| %s | %s | %s line %d | `%s` -> `%s` | %s |' % (
                    m['id'], m['check'], m['func'], m['line'], m['old'].strip(), m['new'].strip() or '(removed)',
                    triage.get(key, triage.get(m['id'], 'not triaged'))))
            elif rc == 'not-run':
                c['notrun'] += 1
            else:
                c['other'] += 1
                rows.append('| %s | %s | %s line %d | `%s` -> `%s` | exit %s |' % (
                    m['id'], m['check'], m['func'], m['line'], m['old'].strip(), m['new'].strip(), rc))
        out = ['# Operator mutation of the functions the statements name (%s)' % ('format_inspector.py' if os.environ.get('AUTOMUT_SET') == 'img' else 'non-image modules'), '',
               'tools/automutate.py: one token changed per mutant (comparison flips, and/or, `not` removed, '
               'True/False, small integer constants +-1, +/-), applied to a scratch copy of /repo @ %s; the '
               'repository\'s suite is run first (the 7 tests that fail offline deselected), the property\'s quick '
               'check on every mutant the suite does not notice.' %
               subprocess.run(['git', '-C', '/repo', 'rev-parse', '--short', 'HEAD'], capture_output=True,
                              text=True).stdout.strip(), '',
               '| check | mutants | noticed by the suite | not noticed: caught by the check | not noticed: check silent | harness error / timeout | not noticed, not run (AUTOMUT_STRIDE subset) |',
               '|---|---|---|---|---|---|---|']
        for k in sorted(tot):
            c = tot[k]
            out.append('| %s | %d | %d | %d | %d | %d | %d |' % (k, c['all'], c['suite'], c['caught'], c['silent'], c['other'], c['notrun']))
        s = {k: sum(c[k] for c in tot.values()) for k in ('all', 'suite', 'caught', 'silent', 'other', 'notrun')}
        out.append('| all | %d | %d | %d | %d | %d | %d |' % (s['all'], s['suite'], s['caught'], s['silent'], s['other'], s['notrun']))
        out += ['', 'Mutants neither the suite nor the check notices, with the reason (equivalent = no input '
                'distinguishes it; outside = the difference lies outside what the statement constrains):', '',
                '| id | check | site | change | triage |', '|---|---|---|---|---|'] + rows
        open('/verif/AUTOMUTATION_RESULTS%s.md' % ('_IMG' if os.environ.get('AUTOMUT_SET') == 'img' else ''), 'w').write('\n'.join(out) + '\n')
        print('\n'.join(out[4:4 + len(tot) + 3]))
    elif cmd == 'clean':
        shutil.rmtree(ROOT, ignore_errors=True)


if __name__ == '__main__':
    main()
