#!/bin/sh
# Re-runs every hand-made mutant (mutants/*.diff, property from the file name)
# and every sub-agent seed (seeded/<id>/patch.diff) against its property's quick
# check in scratch copies; writes MUTATION_RESULTS.md. ~25 min on 16 cores.
cd /verif
OUT=MUTATION_RESULTS.md
{
echo "# Detection demonstrations"
echo
echo "Produced by tools/run_all_mutants.sh on $(date -u +%Y-%m-%dT%H:%MZ) against /repo @ $(git -C /repo rev-parse --short HEAD)."
echo "Every change is applied to a scratch copy of /repo's tree (never to /repo), the property's quick check is"
echo "run with OSLO_UTILS_VERIF_REPO pointing at the copy; exit 1 = detected (VIOLATION lines), 0 = missed, 2 = harness error."
echo
echo "| change | origin | check | exit | first violation class |"
echo "|---|---|---|---|---|"
} > $OUT
for f in mutants/*.diff; do
  b=$(basename $f .diff); c=$(echo $b | cut -c1-3 | tr a-z A-Z)
  case $b in equivalent-*)
    # behaviour-preserving refactors: every check of the touched module must stay silent
    if grep -q "format_inspector.py" $f; then CS="C01 C02 C03 C05 C06 C07"; else CS="C12 C13"; fi
    for c in $CS; do
      R=$(tools/mutant.sh /verif/$f $c)
      rc=$(echo "$R" | sed -n 's/.*exit=\([0-9]*\).*/\1/p')
      echo "| $b | hand-written, behaviour-preserving | $c | $rc (expected 0) | $([ "$rc" = 0 ] && echo silent || echo FALSE-ALARM) |" >> $OUT
    done
    continue;;
  esac
  R=$(tools/mutant.sh /verif/$f $c)
  rc=$(echo "$R" | sed -n 's/.*exit=\([0-9]*\).*/\1/p'); cls=$(echo "$R" | sed -n 's/.*  class \([^ ]*\) .*/\1/p' | head -1)
  echo "| $b | hand-written | $c | $rc | $cls |" >> $OUT
done
for d in seeded/*/; do
  id=$(basename $d); c=$(echo $id | cut -c1-3)
  if [ -f $d/OUT_OF_DOMAIN ]; then
    R=$(tools/mutant.sh /verif/$d/patch.diff $c)
    rc=$(echo "$R" | sed -n 's/.*exit=\([0-9]*\).*/\1/p')
    echo "| seeded/$id | independent sub-agent | $c | $rc (n/a) | trigger outside the statement's domain, see seeded/$id/OUT_OF_DOMAIN |" >> $OUT
    continue
  fi
  if [ -f $d/NOT_A_BREAKAGE ]; then
    echo "| seeded/$id | independent sub-agent | $c | n/a | not a breakage: it is the repair of a defect of the pinned tree (see seeded/$id/NOT_A_BREAKAGE) |" >> $OUT
    continue
  fi
  R=$(tools/mutant.sh /verif/$d/patch.diff $c)
  rc=$(echo "$R" | sed -n 's/.*exit=\([0-9]*\).*/\1/p'); cls=$(echo "$R" | sed -n 's/.*  class \([^ ]*\) .*/\1/p' | head -1)
  echo "| seeded/$id | independent sub-agent | $c | $rc | $cls |" >> $OUT
done
# behaviour-preserving changes made by sub-agents (equivalent/<id>/): the property's own check
# must stay silent (the full matrix against every check of the touched module is in each
# meta.json, written by tools/equiv_eval.sh)
for d in equivalent/*/; do
  id=$(basename $d); c=$(echo $id | cut -c1-3)
  R=$(tools/mutant.sh /verif/$d/patch.diff $c)
  rc=$(echo "$R" | sed -n 's/.*exit=\([0-9]*\).*/\1/p')
  echo "| equivalent/$id | independent sub-agent, behaviour-preserving | $c | $rc (expected 0) | $([ "$rc" = 0 ] && echo silent || echo FALSE-ALARM) |" >> $OUT
done
echo >> $OUT
echo "False alarms on behaviour-preserving refactors: $(grep -c 'FALSE-ALARM' $OUT). Missed: $(grep -c '| 0 |' $OUT); harness errors: $(grep -c '| 2 |' $OUT); patch did not apply: $(grep -c '|  |' $OUT); detected: $(grep -c '| 1 |' $OUT)." >> $OUT
tail -1 $OUT
