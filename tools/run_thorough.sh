#!/bin/sh
# runs every thorough tier once, prints one line per check (exit, wall seconds)
cd "$(dirname "$0")/.."
for c in ${CHECKS:-C02 C03 C04 C05 C06 C07 C08 C09 C10 C11 C12 C13 C14 C15 C16 C17 C18 C19 C20 C01}; do
  S=$(date +%s); OUT=$(./vcheck $c --tier thorough 2>&1); RC=$?; E=$(date +%s)
  echo "THOROUGH $c exit=$RC wall=$((E-S))s $(printf '%s\n' "$OUT" | grep "tier=thorough" | cut -c1-200)"
  printf '%s\n' "$OUT" | grep -E "VIOLATION|HARNESS|class |Traceback|Error" | head -5
done
