#!/usr/bin/env python3
"""python3-vt tools/validate.py : validates MANIFEST.json and evidence/*.json"""
import glob, json, sys
import jsonschema
ok = True
ms = json.load(open('/root/.vp/MANIFEST.schema.json'))
es = json.load(open('/root/.vp/EVIDENCE.schema.json'))
man = json.load(open('/verif/MANIFEST.json'))
try:
    jsonschema.validate(man, ms)
    print('MANIFEST ok: %d checks, %d n/a' % (len(man['checks']), len(man.get('not_applicable', []))))
except jsonschema.ValidationError as e:
    ok = False; print('MANIFEST INVALID', e.message)
ids = {json.loads(l)['id'] for l in open('/verif/properties.jsonl')}
claimed = {c['property_id'] for c in man['checks']}
na = {n['property_id'] for n in man.get('not_applicable', [])}
if claimed | na != ids or claimed & na:
    ok = False; print('coverage of property ids wrong', ids - claimed - na, claimed & na)
for c in man['checks']:
    f = c['evidence_file']
    try:
        ev = json.load(open(f))
        jsonschema.validate(ev, es)
        assert ev['level'] == c['level_claimed']['category'], 'level mismatch'
        assert ev['property_id'] == c['property_id']
        print(f, 'ok', ev['tier'], ev['wall_s'])
    except Exception as e:
        ok = False; print(f, 'INVALID', str(e)[:300])
sys.exit(0 if ok else 1)
