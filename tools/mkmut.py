#!/usr/bin/env python3
"""tools/mkmut.py <name> <file-relative-to-repo> <old> <new>  -> mutants/<name>.diff
Builds a unified diff against /repo's working tree without touching it."""
import difflib, sys
name, rel, old, new = sys.argv[1:5]
src = open('/repo/' + rel).read()
old = old.encode().decode('unicode_escape'); new = new.encode().decode('unicode_escape')
assert src.count(old) == 1, 'pattern occurs %d times' % src.count(old)
dst = src.replace(old, new)
d = difflib.unified_diff(src.splitlines(True), dst.splitlines(True), 'a/' + rel, 'b/' + rel)
open('/verif/mutants/%s.diff' % name, 'w').write(''.join(d))
print('wrote', name)
