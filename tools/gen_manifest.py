#!/usr/bin/env python3
"""Regenerates /verif/MANIFEST.json from the check modules' metadata.

Run with /venv/bin/python tools/gen_manifest.py (needs no third-party module).
"""
import importlib
import json
import os
import sys

HERE = os.path.dirname(os.path.dirname(os.path.abspath(__file__)))
sys.path.insert(0, HERE)

PROPS = [json.loads(line) for line in open(os.path.join(HERE, 'properties.jsonl'))]

ENGINE = {'A': 'stream-state model checker (vlib/mc/stream.py)',
          'B': 'operation-sequence model checker (vlib/mc/seq.py)',
          'C': 'bounded-exhaustive input enumeration (vlib/mc/enum.py)'}


def main():
    checks, na = [], []
    for p in PROPS:
        pid = p['id']
        path = os.path.join(HERE, 'vlib', 'checks', pid.lower() + '.py')
        if not os.path.exists(path):
            na.append({'property_id': pid,
                       'reason': 'check not built yet (work in progress); '
                                 'decidable by bounded exhaustive exploration '
                                 'per DESIGN.md sec. 6'})
            continue
        mod = importlib.import_module('vlib.checks.' + pid.lower())
        checks.append({
            'property_id': pid,
            'quick_cmd': './vcheck %s --tier quick' % pid,
            'thorough_cmd': './vcheck %s --tier thorough' % pid,
            'evidence_file': '/verif/evidence/%s.json' % pid,
            'replay_cmd_template': './vcheck --replay {path}',
            'engine': getattr(mod, 'ENGINE', ''),
            'level_claimed': {'category': mod.LEVEL,
                              'text': mod.LEVEL_TEXT,
                              'design_ref': 'DESIGN.md sec. 6 (%s)' % pid},
            'level_note': mod.LEVEL_NOTE,
            'technique': mod.TECHNIQUE,
        })
    man = {
        'version': 1,
        'setup_cmd': 'cd /verif && ./vcheck --list',
        'hooks': {
            'guard': 'OSLO_UTILS_VERIF',
            'enable': 'no source hooks exist: the checks import /repo\'s '
                      'working tree directly (sys.path) and observe it from '
                      'outside; OSLO_UTILS_VERIF=1 is exported for symmetry, '
                      'OSLO_UTILS_VERIF_REPO=<dir> redirects to a scratch copy',
            'baseline_off_cmd': 'cd /repo && /venv/bin/python -m pytest -ra -q '
                                '-p no:cacheprovider --timeout=900 '
                                '--continue-on-collection-errors',
            'source_commits': [],
            'add_only': True,
        },
        'engines': [
            {'name': 'A', 'path': 'vlib/mc/stream.py',
             'serves_properties': ['C01', 'C02', 'C03', 'C05', 'C06', 'C07'],
             'kind_free_text': 'explicit-state exploration of real inspector '
                               'objects over all chunkings / read sequences / '
                               'fault placements'},
            {'name': 'B', 'path': 'vlib/mc/seq.py',
             'serves_properties': ['C09', 'C12', 'C13'],
             'kind_free_text': 'BFS over API call sequences on real objects '
                               'with a lock-step reference model'},
            {'name': 'C', 'path': 'vlib/mc/enum.py',
             'serves_properties': ['C04', 'C08', 'C10', 'C11', 'C14', 'C15',
                                   'C16', 'C17', 'C18', 'C19', 'C20'],
             'kind_free_text': 'complete enumeration of a finite product of '
                               'input shapes against a reference model'},
        ],
        'checks': checks,
        'not_applicable': na,
        'notes': 'Every check: exit 0 held / exit 1 + VIOLATION line / exit 2 '
                 'harness error. Known findings: /verif/known_findings.txt. '
                 'Fixes to /repo are separate "fix:" commits.',
    }
    with open(os.path.join(HERE, 'MANIFEST.json'), 'w') as f:
        json.dump(man, f, indent=1)
        f.write('\n')
    print('checks: %s; not_applicable: %s' % (
        [c['property_id'] for c in checks], [n['property_id'] for n in na]))


if __name__ == '__main__':
    main()
