#!/bin/sh
# tools/equiv_eval.sh <src-dir with patch.diff notes.md [equiv_test.py]> <id>
# A behaviour-preserving change made by a sub-agent: applies it to a scratch copy, runs the
# repository's suite and every check whose module the patch touches; all must stay silent
# (exit 0). Files it under /verif/equivalent/<id>/ with meta.json.
set -u
SRC="$1"; ID="$2"
SCR="$(mktemp -d /tmp/oslo-eq.XXXXXX)"
trap 'rm -rf "$SCR"' EXIT
( cd /repo && git ls-files -z | xargs -0 cp --parents -t "$SCR" ) || exit 2
( cd "$SCR" && patch -p1 -s < "$SRC/patch.diff" ) || { echo "EQUIV $ID PATCH-FAILED"; exit 2; }
SUITE="$(cd "$SCR" && PYTHONPATH="$SCR" /venv/bin/python -m pytest -q -p no:cacheprovider --timeout=900 --continue-on-collection-errors 2>&1 | tail -1)"
CS=""
grep -q "format_inspector.py" "$SRC/patch.diff" && CS="$CS C01 C02 C03 C05 C06 C07"
grep -q "imageutils/cli.py" "$SRC/patch.diff" && CS="$CS C02"
grep -q "imageutils/qemu.py" "$SRC/patch.diff" && CS="$CS C10"
grep -q "oslo_utils/strutils.py" "$SRC/patch.diff" && CS="$CS C04 C08 C10 C14 C16 C19"
grep -q "timeutils.py\|oslo_utils/fixture.py" "$SRC/patch.diff" && CS="$CS C12 C13"
grep -q "netutils.py" "$SRC/patch.diff" && CS="$CS C11 C15"
grep -q "excutils.py" "$SRC/patch.diff" && CS="$CS C09"
grep -q "fileutils.py" "$SRC/patch.diff" && CS="$CS C09 C20"
grep -q "versionutils.py" "$SRC/patch.diff" && CS="$CS C17"
grep -q "specs_matcher.py" "$SRC/patch.diff" && CS="$CS C18"
grep -q "encodeutils.py" "$SRC/patch.diff" && CS="$CS C16"
grep -q "uuidutils.py" "$SRC/patch.diff" && CS="$CS C14"
CS="$(echo $CS | tr ' ' '\n' | sort -u | tr '\n' ' ')"
RES=""
for C in $CS; do
  OUT="$(cd /verif && OSLO_UTILS_VERIF_REPO="$SCR" VERIF_SCRATCH_EVIDENCE="$SCR/ev" timeout 1500 ./vcheck "$C" 2>&1)"; RC=$?
  CLS="$(printf '%s\n' "$OUT" | grep -m1 '^  class\|HARNESS' | cut -c1-260 | tr '"' "'")"
  RES="$RES{\"check\":\"$C\",\"exit\":$RC,\"first_class\":\"$CLS\"},"
  echo "EQUIV $ID check=$C exit=$RC $CLS"
done
echo "EQUIV $ID suite='$SUITE' checks='$CS'"
mkdir -p "/verif/equivalent/$ID"
cp "$SRC/patch.diff" "/verif/equivalent/$ID/"
[ -f "$SRC/notes.md" ] && cp "$SRC/notes.md" "/verif/equivalent/$ID/notes.md"
[ -f "$SRC/equiv_test.py" ] && cp "$SRC/equiv_test.py" "/verif/equivalent/$ID/equiv_test.py"
cat > "/verif/equivalent/$ID/meta.json" <<EOM
{"id": "$ID", "source": "independent sub-agent asked for a behaviour-preserving change, given only the property text and a scratch worktree",
 "suite_tail_with_patch": "$(printf '%s' "$SUITE" | tr -d '=' | sed 's/^ *//')",
 "checks_run": [${RES%,}],
 "how_run": "tools/equiv_eval.sh: scratch copy of /repo's tree, patch -p1, pytest, ./vcheck with OSLO_UTILS_VERIF_REPO"}
EOM
