#!/venv/bin/python
"""Writes vlib/ref/literals_baseline.json: the literal constants of the modules
under test in /repo's HEAD commit (not the working tree), see vlib/lits.py."""
import json
import os
import subprocess
import sys

sys.path.insert(0, os.path.join(os.path.dirname(os.path.abspath(__file__)), '..'))
from vlib import lits  # noqa: E402

out = {}
for rp in lits.MODULES:
    r = subprocess.run(['git', '-C', '/repo', 'show', 'HEAD:' + rp], capture_output=True, text=True)
    if r.returncode:
        continue
    out[rp] = lits.harvest_source(r.stdout)
with open(lits.BASELINE, 'w') as f:
    json.dump(out, f, indent=0, sort_keys=True)
print({k: {kk: len(vv) for kk, vv in v.items()} for k, v in out.items()})
