#!/bin/sh
# tools/seed_eval.sh <src-dir with patch.diff demo.py notes.md> <seed-id> <Cxx> [<Cyy>...]
# Confirms a sub-agent-made seeded change in a scratch copy (demo passes clean /
# fails patched; suite unchanged), runs the named checks against it, and files
# it under /verif/seeded/<seed-id>/ with meta.json.
set -u
SRC="$1"; ID="$2"; shift 2
SCR="$(mktemp -d /tmp/oslo-seed.XXXXXX)"
trap 'rm -rf "$SCR"' EXIT
( cd /repo && git ls-files -z | xargs -0 cp --parents -t "$SCR" ) || exit 2
( cd "$SCR" && PYTHONPATH="$SCR" timeout 600 /venv/bin/python "$SRC/demo.py" >/dev/null 2>&1 ); D0=$?
( cd "$SCR" && patch -p1 -s < "$SRC/patch.diff" ) || { echo "SEED $ID PATCH-FAILED"; exit 2; }
( cd "$SCR" && PYTHONPATH="$SCR" timeout 600 /venv/bin/python "$SRC/demo.py" >/dev/null 2>&1 ); D1=$?
SUITE="$(cd "$SCR" && PYTHONPATH="$SCR" /venv/bin/python -m pytest -q -p no:cacheprovider --timeout=900 --continue-on-collection-errors 2>&1 | tail -1)"
RES=""
for C in "$@"; do
  OUT="$(cd /verif && OSLO_UTILS_VERIF_REPO="$SCR" VERIF_SCRATCH_EVIDENCE="$SCR/ev" ./vcheck "$C" 2>&1)"; RC=$?
  CLS="$(printf '%s\n' "$OUT" | grep -m1 '^  class' | cut -c1-260 | tr '"' "'" | tr '\\' '/')"
  RES="$RES{\"check\":\"$C\",\"exit\":$RC,\"first_class\":\"$CLS\"},"
  echo "SEED $ID check=$C exit=$RC $CLS"
done
echo "SEED $ID demo_clean_exit=$D0 demo_patched_exit=$D1 suite='$SUITE'"
mkdir -p "/verif/seeded/$ID"
cp "$SRC/patch.diff" "$SRC/demo.py" "/verif/seeded/$ID/"
[ -f "$SRC/notes.md" ] && cp "$SRC/notes.md" "/verif/seeded/$ID/notes.md"
cat > "/verif/seeded/$ID/meta.json" <<EOM
{"seed_id": "$ID", "source": "independent sub-agent given only the property text and a scratch worktree",
 "demo_exit_on_clean_tree": $D0, "demo_exit_with_patch": $D1,
 "suite_tail_with_patch": "$(printf '%s' "$SUITE" | tr -d '=' | sed 's/^ *//')",
 "checks_run": [${RES%,}],
 "how_run": "tools/seed_eval.sh: scratch copy of /repo's tree, patch -p1, demo.py, pytest, ./vcheck with OSLO_UTILS_VERIF_REPO"}
EOM
