#!/bin/sh
# tools/mutant.sh <patch.diff> [--tests] <Cxx> [<Cyy> ...]
# Applies a patch to a scratch copy of /repo's working tree (outside /repo and
# /verif), optionally runs the repository's own test suite there, runs the named
# checks against the copy, prints one line per check, removes the copy.
set -u
PATCH="$1"; shift
RUNTESTS=0
if [ "${1:-}" = "--tests" ]; then RUNTESTS=1; shift; fi
SCR="$(mktemp -d /tmp/oslo-mut.XXXXXX)"
trap 'rm -rf "$SCR"' EXIT
( cd /repo && git ls-files -z | xargs -0 cp --parents -t "$SCR" ) || exit 2
( cd "$SCR" && patch -p1 -s < "$PATCH" ) || { echo "PATCH-FAILED $PATCH"; exit 2; }
if [ $RUNTESTS = 1 ]; then
  ( cd "$SCR" && /venv/bin/python -m pytest -q -p no:cacheprovider --timeout=900 --continue-on-collection-errors 2>&1 | tail -1 ) | sed "s|^|TESTS $(basename "$PATCH"): |"
fi
for C in "$@"; do
  OUT="$(cd /verif && OSLO_UTILS_VERIF_REPO="$SCR" VERIF_SCRATCH_EVIDENCE="$SCR/ev" ./vcheck "$C" 2>&1)"; RC=$?
  N=$(printf '%s\n' "$OUT" | grep -c '^VIOLATION')
  echo "MUTANT $(basename "$PATCH") check=$C exit=$RC violations=$N $(printf '%s\n' "$OUT" | grep -m1 '^  class' | cut -c1-220)"
done
