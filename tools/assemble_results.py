#!/usr/bin/env python3
"""Assembles MUTATION_RESULTS.md from (a) the rows of the last complete tools/run_all_mutants.sh
run (given as a file), and (b) the recorded evaluations of everything filed since: seeded/*/meta.json
(tools/seed_eval.sh), equivalent/*/meta.json (tools/equiv_eval.sh), plus explicit re-run rows given
on stdin as 'name|origin|check|exit|class'. Used when a complete re-run does not fit the time left;
tools/run_all_mutants.sh regenerates everything from scratch."""
import glob
import json
import os
import re
import sys

base_file, stamp = sys.argv[1], sys.argv[2]
rows, seen = [], set()
for line in open(base_file):
    if line.startswith('| ') and not line.startswith('| change') and not line.startswith('|---'):
        name = line.split('|')[1].strip()
        rows.append(line.rstrip('\n'))
        seen.add(name)
extra = []
for line in sys.stdin:
    line = line.strip()
    if not line:
        continue
    name, origin, check, rc, cls = (line.split('|') + [''] * 5)[:5]
    # a re-run row replaces an older row of the same change and check
    rows = [r for r in rows if not (r.split('|')[1].strip() == name and r.split('|')[3].strip() == check)]
    extra.append('| %s | %s | %s | %s | %s |' % (name, origin, check, rc, cls))
    seen.add(name)
for d in sorted(glob.glob('/verif/seeded/*/')):
    sid = os.path.basename(d.rstrip('/'))
    name = 'seeded/' + sid
    if name in seen:
        continue
    m = json.load(open(d + 'meta.json'))
    prop = sid[:3]
    if os.path.exists(d + 'OUT_OF_DOMAIN'):
        extra.append("| %s | independent sub-agent | %s | 0 (n/a) | trigger outside the statement's domain, see %sOUT_OF_DOMAIN |" % (name, prop, 'seeded/' + sid + '/'))
        continue
    for c in m.get('checks_run', []):
        cls = re.sub(r'^\s*class\s+', '', c.get('first_class', '')).split(' ')[0]
        extra.append('| %s | independent sub-agent | %s | %s | %s |' % (name, c['check'], c['exit'], cls))
for d in sorted(glob.glob('/verif/equivalent/*/')):
    eid = os.path.basename(d.rstrip('/'))
    m = json.load(open(d + 'meta.json'))
    cs = m.get('checks_run', [])
    bad = [c for c in cs if c['exit'] != 0]
    extra.append('| equivalent/%s | independent sub-agent, behaviour-preserving | %s | %s (expected 0) | %s |' % (
        eid, ' '.join(c['check'] for c in cs), '0' if not bad else ','.join('%s=%s' % (c['check'], c['exit']) for c in bad),
        'silent' if not bad else 'FALSE-ALARM'))
allrows = rows + extra
out = ['# Detection demonstrations', '',
       'Rows up to the first blank table line come from the last complete run of tools/run_all_mutants.sh '
       '(%s, /repo @ b855047); the rows after it were recorded when the change was filed '
       '(tools/seed_eval.sh, tools/equiv_eval.sh: seeded/*/meta.json, equivalent/*/meta.json) or re-run '
       'individually after a strengthening (tools/mutant.sh). Assembled by tools/assemble_results.py.' % stamp,
       'Every change is applied to a scratch copy of /repo\'s tree (never to /repo), the property\'s quick check is',
       'run with OSLO_UTILS_VERIF_REPO pointing at the copy; exit 1 = detected (VIOLATION lines), 0 = missed, 2 = harness error;',
       'behaviour-preserving changes are expected to exit 0 (silent) on every check of the module they touch.', '',
       '| change | origin | check | exit | first violation class |', '|---|---|---|---|---|'] + allrows
det = sum(1 for r in allrows if re.search(r'\| 1 \|', r))
missed = sum(1 for r in allrows if re.search(r'\| 0 \|', r))
herr = sum(1 for r in allrows if re.search(r'\| 2 \|', r))
fa = sum(1 for r in allrows if 'FALSE-ALARM' in r)
silent = sum(1 for r in allrows if r.rstrip().endswith('| silent |'))
ood = sum(1 for r in allrows if '(n/a)' in r or '| n/a |' in r)
out += ['', 'Detected: %d; missed: %d; harness errors: %d; outside the statement / not a breakage: %d; '
        'behaviour-preserving changes silent: %d, false alarms: %d.' % (det, missed, herr, ood, silent, fa)]
open('/verif/MUTATION_RESULTS.md', 'w').write('\n'.join(out) + '\n')
print(out[-1])
